/* Contracts for src/skinny64-cipher.c (cells are nibbles; see skinny128-cipher.h
 * for the explanation of each contract - the structure is identical). */
#ifndef CONTRACTS_SKINNY64_CIPHER_H
#define CONTRACTS_SKINNY64_CIPHER_H
#include "verif_common.h"

/* validity of the 8-byte TK1 argument of set_tk1/xor_tk1.  In the jobs that REPLACE these two
   functions inside set_tweaked_key/set_tweak the argument is the tweak field of the very object that
   holds the schedule, which an is_fresh precondition (object granular) cannot describe; those jobs
   assert plain readability instead.  The enforce jobs prove the contract for a separate buffer; that
   it carries over to a disjoint byte range of the same object rests on the proved frame (writes:
   schedule region only) - listed as assumption 'byte-range locality'. */
#ifdef VERIF_ALIAS_KEY
#define V64_TK1ARG_VALID(key) __CPROVER_r_ok(key, 8)
#else
#define V64_TK1ARG_VALID(key) __CPROVER_is_fresh(key, 8)
#endif

#define V64_LOAD_STATE(p) VG_S[0] = VHI(VU8(p)[0]); VG_S[1] = VLO(VU8(p)[0]); VG_S[2] = VHI(VU8(p)[1]); VG_S[3] = VLO(VU8(p)[1]); VG_S[4] = VHI(VU8(p)[2]); VG_S[5] = VLO(VU8(p)[2]); VG_S[6] = VHI(VU8(p)[3]); VG_S[7] = VLO(VU8(p)[3]); VG_S[8] = VHI(VU8(p)[4]); VG_S[9] = VLO(VU8(p)[4]); VG_S[10] = VHI(VU8(p)[5]); VG_S[11] = VLO(VU8(p)[5]); VG_S[12] = VHI(VU8(p)[6]); VG_S[13] = VLO(VU8(p)[6]); VG_S[14] = VHI(VU8(p)[7]); VG_S[15] = VLO(VU8(p)[7]);
#define V64_LOAD_RK(hc) VG_RK[0] = VCELL16((hc).row[0], 0); VG_RK[4] = VCELL16((hc).row[1], 0); VG_RK[1] = VCELL16((hc).row[0], 1); VG_RK[5] = VCELL16((hc).row[1], 1); VG_RK[2] = VCELL16((hc).row[0], 2); VG_RK[6] = VCELL16((hc).row[1], 2); VG_RK[3] = VCELL16((hc).row[0], 3); VG_RK[7] = VCELL16((hc).row[1], 3);
#define V64_OUT_IS_GHOST(out) (VU8(out)[0] == (uint8_t)((VG_S[2 * 0] << 4) | (VG_S[2 * 0 + 1] & 0xF)) && VU8(out)[1] == (uint8_t)((VG_S[2 * 1] << 4) | (VG_S[2 * 1 + 1] & 0xF)) && VU8(out)[2] == (uint8_t)((VG_S[2 * 2] << 4) | (VG_S[2 * 2 + 1] & 0xF)) && VU8(out)[3] == (uint8_t)((VG_S[2 * 3] << 4) | (VG_S[2 * 3 + 1] & 0xF)) && VU8(out)[4] == (uint8_t)((VG_S[2 * 4] << 4) | (VG_S[2 * 4 + 1] & 0xF)) && VU8(out)[5] == (uint8_t)((VG_S[2 * 5] << 4) | (VG_S[2 * 5 + 1] & 0xF)) && VU8(out)[6] == (uint8_t)((VG_S[2 * 6] << 4) | (VG_S[2 * 6 + 1] & 0xF)) && VU8(out)[7] == (uint8_t)((VG_S[2 * 7] << 4) | (VG_S[2 * 7 + 1] & 0xF)))
#define V64_CELLS_OK(g) ((g)[0] <= 0xF && (g)[1] <= 0xF && (g)[2] <= 0xF && (g)[3] <= 0xF && (g)[4] <= 0xF && (g)[5] <= 0xF && (g)[6] <= 0xF && (g)[7] <= 0xF && (g)[8] <= 0xF && (g)[9] <= 0xF && (g)[10] <= 0xF && (g)[11] <= 0xF && (g)[12] <= 0xF && (g)[13] <= 0xF && (g)[14] <= 0xF && (g)[15] <= 0xF)
#define V64_STATE_IS_GHOST(st) ((st).row[0] == VPACK16(VG_S, 0) && (st).row[1] == VPACK16(VG_S, 1) && (st).row[2] == VPACK16(VG_S, 2) && (st).row[3] == VPACK16(VG_S, 3))

#define VC_skinny64_ecb_encrypt \
    __CPROVER_requires(__CPROVER_is_fresh(ks, sizeof(Skinny64Key_t))) \
    __CPROVER_requires(ks->rounds <= SKINNY64_MAX_ROUNDS) \
    __CPROVER_requires(__CPROVER_is_fresh(input, 8)) \
    __CPROVER_requires(__CPROVER_is_fresh(output, 8) || __CPROVER_pointer_equals(output, (void *)input)) \
    __CPROVER_assigns(__CPROVER_object_upto(output, 8)) \
    __CPROVER_assigns(__CPROVER_object_whole(VG_S), __CPROVER_object_whole(VG_RK)) \
    __CPROVER_ensures(V64_OUT_IS_GHOST(output))
#define VE_skinny64_ecb_encrypt V64_LOAD_STATE(input)
#define VL_skinny64_ecb_encrypt_1 \
    __CPROVER_assigns(index, schedule, temp, __CPROVER_object_whole(&state), \
                      __CPROVER_object_whole(VG_S), __CPROVER_object_whole(VG_RK)) \
    __CPROVER_loop_invariant(index <= ks->rounds) \
    __CPROVER_loop_invariant(schedule == ks->schedule + (ks->rounds - index)) \
    __CPROVER_loop_invariant(V64_CELLS_OK(VG_S)) \
    __CPROVER_loop_invariant(V64_STATE_IS_GHOST(state)) \
    __CPROVER_decreases(index)
#define VT_skinny64_ecb_encrypt_1 \
    { V64_LOAD_RK(ks->schedule[ks->rounds - index]) spec64_round(VG_S, VG_RK); }

#define VC_skinny64_ecb_decrypt \
    __CPROVER_requires(__CPROVER_is_fresh(ks, sizeof(Skinny64Key_t))) \
    __CPROVER_requires(1 <= ks->rounds && ks->rounds <= SKINNY64_MAX_ROUNDS) \
    __CPROVER_requires(__CPROVER_is_fresh(input, 8)) \
    __CPROVER_requires(__CPROVER_is_fresh(output, 8) || __CPROVER_pointer_equals(output, (void *)input)) \
    __CPROVER_assigns(__CPROVER_object_upto(output, 8)) \
    __CPROVER_assigns(__CPROVER_object_whole(VG_S), __CPROVER_object_whole(VG_RK)) \
    __CPROVER_ensures(V64_OUT_IS_GHOST(output))
#define VE_skinny64_ecb_decrypt V64_LOAD_STATE(input)
#define VL_skinny64_ecb_decrypt_1 \
    __CPROVER_assigns(index, schedule, temp, __CPROVER_object_whole(&state), \
                      __CPROVER_object_whole(VG_S), __CPROVER_object_whole(VG_RK)) \
    __CPROVER_loop_invariant(index <= ks->rounds) \
    __CPROVER_loop_invariant(schedule == ks->schedule + index - 1) \
    __CPROVER_loop_invariant(V64_CELLS_OK(VG_S)) \
    __CPROVER_loop_invariant(V64_STATE_IS_GHOST(state)) \
    __CPROVER_decreases(index)
#define VT_skinny64_ecb_decrypt_1 \
    { V64_LOAD_RK(ks->schedule[index - 1]) spec64_inv_round(VG_S, VG_RK); }

/* ---- tweakey schedule ---- */
/* nibble cell i (0..15) of an 8-byte key */
#define V64_KC(key, i) ((uint8_t)((VU8(key)[(i) >> 1] >> (((i) & 1) ? 0 : 4)) & 0xF))
#define V64_KP(key, j, i) V64_KC(key, SPEC_PTJ[(j) & 15][(i)])
#define V64_TK1ROW(key, j, r) \
    ((uint16_t)(((uint16_t)V64_KP(key, j, 4 * (r)) << 4) | (uint16_t)V64_KP(key, j, 4 * (r) + 1) | \
                ((uint16_t)V64_KP(key, j, 4 * (r) + 2) << 12) | ((uint16_t)V64_KP(key, j, 4 * (r) + 3) << 8)))
#define V64_TK1_EXP0(key, j, tweaked) \
    ((uint16_t)(V64_TK1ROW(key, j, 0) ^ (uint16_t)((SPEC_RC[(j)] & 0x0F) << 4) ^ ((tweaked) ? 0x2000u : 0u)))
#define V64_TK1_EXP1(key, j) ((uint16_t)(V64_TK1ROW(key, j, 1) ^ (uint16_t)(SPEC_RC[(j)] & 0x30)))

#define V64_TK_IS_GHOST(tk, g) ((tk).row[0] == VPACK16(g, 0) && (tk).row[1] == VPACK16(g, 1) && (tk).row[2] == VPACK16(g, 2) && (tk).row[3] == VPACK16(g, 3))
#define V64_TK_IS_KEYPERM(tk, key, j) ((tk).row[0] == V64_TK1ROW(key, j, 0) && (tk).row[1] == V64_TK1ROW(key, j, 1) && (tk).row[2] == V64_TK1ROW(key, j, 2) && (tk).row[3] == V64_TK1ROW(key, j, 3))
#define V64_LOAD_PADDED(g, key, n) (g)[0] = (0 < (n)) ? VHI(VU8(key)[0]) : 0; (g)[1] = (0 < (n)) ? VLO(VU8(key)[0]) : 0; (g)[2] = (1 < (n)) ? VHI(VU8(key)[1]) : 0; (g)[3] = (1 < (n)) ? VLO(VU8(key)[1]) : 0; (g)[4] = (2 < (n)) ? VHI(VU8(key)[2]) : 0; (g)[5] = (2 < (n)) ? VLO(VU8(key)[2]) : 0; (g)[6] = (3 < (n)) ? VHI(VU8(key)[3]) : 0; (g)[7] = (3 < (n)) ? VLO(VU8(key)[3]) : 0; (g)[8] = (4 < (n)) ? VHI(VU8(key)[4]) : 0; (g)[9] = (4 < (n)) ? VLO(VU8(key)[4]) : 0; (g)[10] = (5 < (n)) ? VHI(VU8(key)[5]) : 0; (g)[11] = (5 < (n)) ? VLO(VU8(key)[5]) : 0; (g)[12] = (6 < (n)) ? VHI(VU8(key)[6]) : 0; (g)[13] = (6 < (n)) ? VLO(VU8(key)[6]) : 0; (g)[14] = (7 < (n)) ? VHI(VU8(key)[7]) : 0; (g)[15] = (7 < (n)) ? VLO(VU8(key)[7]) : 0;
#define V64_COPY8(d, s) (d)[0] = (s)[0]; (d)[1] = (s)[1]; (d)[2] = (s)[2]; (d)[3] = (s)[3]; (d)[4] = (s)[4]; (d)[5] = (s)[5]; (d)[6] = (s)[6]; (d)[7] = (s)[7];
#define V64_UNPACK_PREFIX_OK(tk, g, index) (((index) > 2 * 0 ==> (tk).row[0] == VPACK16(g, 0)) && ((index) <= 2 * 0 ==> (tk).row[0] == 0) && ((index) > 2 * 1 ==> (tk).row[1] == VPACK16(g, 1)) && ((index) <= 2 * 1 ==> (tk).row[1] == 0) && ((index) > 2 * 2 ==> (tk).row[2] == VPACK16(g, 2)) && ((index) <= 2 * 2 ==> (tk).row[2] == 0) && ((index) > 2 * 3 ==> (tk).row[3] == VPACK16(g, 3)) && ((index) <= 2 * 3 ==> (tk).row[3] == 0))

static uint8_t VG64_SNAP2[8];
static uint8_t VG64_SNAP3[8];
static uint16_t VG64_OLD0, VG64_OLD1;
static const void *VG64_TK1_KEY; static int VG64_TK1_TWEAKED; static unsigned VG64_TK1_N;
static const void *VG64_TK2_KEY; static unsigned VG64_TK2_SIZE; static unsigned VG64_TK2_N;
static const void *VG64_TK3_KEY; static unsigned VG64_TK3_SIZE; static unsigned VG64_TK3_N;

#define V64_SCHED_REGION(ks) __CPROVER_object_upto((void *)(ks)->schedule, sizeof((ks)->schedule))
#define V64_SAVE_OLD(ks) VG64_OLD0 = (ks)->schedule[VG_J].row[0]; VG64_OLD1 = (ks)->schedule[VG_J].row[1];
#define V64_SCHED_J_IS(ks, a, b) ((ks)->schedule[VG_J].row[0] == (uint16_t)(a) && (ks)->schedule[VG_J].row[1] == (uint16_t)(b))

#define V64_TKN_UNPACK_LOOP \
    /* no explicit assigns clause: dfcc infers the loop's write set, so the contract does not name the
       incidental temporary `word` (a change that restructures the unpacking must fail on the invariant, not on a missing identifier) */ \
    __CPROVER_loop_invariant(index <= 8 && (index & 1) == 0) \
    __CPROVER_loop_invariant(V64_UNPACK_PREFIX_OK(tk, VG_T, index)) \
    __CPROVER_decreases(10 - index)

#define VC_skinny64_set_tk1 \
    __CPROVER_requires(__CPROVER_is_fresh(ks, sizeof(Skinny64Key_t))) \
    __CPROVER_requires(ks->rounds <= SKINNY64_MAX_ROUNDS && VG_J < SKINNY64_MAX_ROUNDS) \
    __CPROVER_requires(key_size == SKINNY64_BLOCK_SIZE && V64_TK1ARG_VALID(key)) \
    __CPROVER_assigns(V64_SCHED_REGION(ks), __CPROVER_object_whole(VG_T), VG64_OLD0, VG64_OLD1, \
                      VG64_TK1_KEY, VG64_TK1_TWEAKED, VG64_TK1_N) \
    __CPROVER_ensures(ks->rounds == __CPROVER_old(ks->rounds)) \
    __CPROVER_ensures(VG_J < ks->rounds ==> V64_SCHED_J_IS(ks, V64_TK1_EXP0(key, VG_J, tweaked), V64_TK1_EXP1(key, VG_J))) \
    __CPROVER_ensures(VG_J >= ks->rounds ==> V64_SCHED_J_IS(ks, __CPROVER_old(ks->schedule[VG_J].row[0]), __CPROVER_old(ks->schedule[VG_J].row[1]))) \
    __CPROVER_ensures(VG64_TK1_KEY == key && VG64_TK1_TWEAKED == tweaked && VG64_TK1_N == __CPROVER_old(VG64_TK1_N) + 1)
#define VE_skinny64_set_tk1 \
    V64_SAVE_OLD(ks) VG64_TK1_KEY = key; VG64_TK1_TWEAKED = tweaked; VG64_TK1_N = VG64_TK1_N + 1;
#define VL_skinny64_set_tk1_1 V64_TKN_UNPACK_LOOP
#define VL_skinny64_set_tk1_2 \
    __CPROVER_assigns(index, rc, __CPROVER_object_whole(&tk), V64_SCHED_REGION(ks)) \
    __CPROVER_loop_invariant(index <= ks->rounds) \
    __CPROVER_loop_invariant(V64_TK_IS_KEYPERM(tk, key, index)) \
    __CPROVER_loop_invariant(rc == (index == 0 ? 0 : SPEC_RC[index - 1])) \
    __CPROVER_loop_invariant(VG_J < index ==> V64_SCHED_J_IS(ks, V64_TK1_EXP0(key, VG_J, tweaked), V64_TK1_EXP1(key, VG_J))) \
    __CPROVER_loop_invariant(VG_J >= index ==> V64_SCHED_J_IS(ks, VG64_OLD0, VG64_OLD1)) \
    __CPROVER_decreases(ks->rounds - index)

#define VC_skinny64_xor_tk1 \
    __CPROVER_requires(__CPROVER_is_fresh(ks, sizeof(Skinny64Key_t))) \
    __CPROVER_requires(ks->rounds <= SKINNY64_MAX_ROUNDS && VG_J < SKINNY64_MAX_ROUNDS) \
    __CPROVER_requires(V64_TK1ARG_VALID(key)) \
    __CPROVER_assigns(V64_SCHED_REGION(ks), VG64_OLD0, VG64_OLD1) \
    __CPROVER_ensures(ks->rounds == __CPROVER_old(ks->rounds)) \
    __CPROVER_ensures(VG_J < ks->rounds ==> V64_SCHED_J_IS(ks, \
        __CPROVER_old(ks->schedule[VG_J].row[0]) ^ V64_TK1ROW(key, VG_J, 0), \
        __CPROVER_old(ks->schedule[VG_J].row[1]) ^ V64_TK1ROW(key, VG_J, 1))) \
    __CPROVER_ensures(VG_J >= ks->rounds ==> V64_SCHED_J_IS(ks, __CPROVER_old(ks->schedule[VG_J].row[0]), __CPROVER_old(ks->schedule[VG_J].row[1])))
#define VE_skinny64_xor_tk1 V64_SAVE_OLD(ks)
#define VL_skinny64_xor_tk1_1 \
    __CPROVER_assigns(index, __CPROVER_object_whole(&tk), V64_SCHED_REGION(ks)) \
    __CPROVER_loop_invariant(index <= ks->rounds) \
    __CPROVER_loop_invariant(V64_TK_IS_KEYPERM(tk, key, index)) \
    __CPROVER_loop_invariant(VG_J < index ==> V64_SCHED_J_IS(ks, VG64_OLD0 ^ V64_TK1ROW(key, VG_J, 0), VG64_OLD1 ^ V64_TK1ROW(key, VG_J, 1))) \
    __CPROVER_loop_invariant(VG_J >= index ==> V64_SCHED_J_IS(ks, VG64_OLD0, VG64_OLD1)) \
    __CPROVER_decreases(ks->rounds - index)

#define V64_TKN_CONTRACT(SNAP, KEYV, SIZEV, NV) \
    __CPROVER_requires(__CPROVER_is_fresh(ks, sizeof(Skinny64Key_t))) \
    __CPROVER_requires(ks->rounds <= SKINNY64_MAX_ROUNDS && VG_J < SKINNY64_MAX_ROUNDS) \
    __CPROVER_requires(1 <= key_size && key_size <= SKINNY64_BLOCK_SIZE && __CPROVER_is_fresh(key, key_size)) \
    __CPROVER_assigns(V64_SCHED_REGION(ks), __CPROVER_object_whole(VG_T), __CPROVER_object_whole(SNAP), \
                      VG64_OLD0, VG64_OLD1, KEYV, SIZEV, NV) \
    __CPROVER_ensures(ks->rounds == __CPROVER_old(ks->rounds)) \
    __CPROVER_ensures(VG_J < ks->rounds ==> V64_SCHED_J_IS(ks, \
        __CPROVER_old(ks->schedule[VG_J].row[0]) ^ VPACK16(SNAP, 0), \
        __CPROVER_old(ks->schedule[VG_J].row[1]) ^ VPACK16(SNAP, 1))) \
    __CPROVER_ensures(VG_J >= ks->rounds ==> V64_SCHED_J_IS(ks, __CPROVER_old(ks->schedule[VG_J].row[0]), __CPROVER_old(ks->schedule[VG_J].row[1]))) \
    __CPROVER_ensures(KEYV == key && SIZEV == key_size && NV == __CPROVER_old(NV) + 1)
#define V64_TKN_ENTRY(KEYV, SIZEV, NV) \
    V64_LOAD_PADDED(VG_T, key, key_size) V64_SAVE_OLD(ks) KEYV = key; SIZEV = key_size; NV = NV + 1;
#define V64_TKN_MAIN_LOOP(SNAP) \
    __CPROVER_assigns(index, __CPROVER_object_whole(&tk), V64_SCHED_REGION(ks), __CPROVER_object_whole(VG_T), __CPROVER_object_whole(SNAP)) \
    __CPROVER_loop_invariant(index <= ks->rounds) \
    __CPROVER_loop_invariant(V64_CELLS_OK(VG_T)) \
    __CPROVER_loop_invariant(V64_TK_IS_GHOST(tk, VG_T)) \
    __CPROVER_loop_invariant(VG_J < index ==> V64_SCHED_J_IS(ks, VG64_OLD0 ^ VPACK16(SNAP, 0), VG64_OLD1 ^ VPACK16(SNAP, 1))) \
    __CPROVER_loop_invariant(VG_J >= index ==> V64_SCHED_J_IS(ks, VG64_OLD0, VG64_OLD1)) \
    __CPROVER_decreases(ks->rounds - index)

#define VC_skinny64_set_tk2 V64_TKN_CONTRACT(VG64_SNAP2, VG64_TK2_KEY, VG64_TK2_SIZE, VG64_TK2_N)
#define VE_skinny64_set_tk2 V64_TKN_ENTRY(VG64_TK2_KEY, VG64_TK2_SIZE, VG64_TK2_N)
#define VL_skinny64_set_tk2_1 V64_TKN_UNPACK_LOOP
#define VL_skinny64_set_tk2_2 V64_TKN_MAIN_LOOP(VG64_SNAP2)
#define VT_skinny64_set_tk2_2 \
    if (index == VG_J) { V64_COPY8(VG64_SNAP2, VG_T) } spec64_tk_permute(VG_T); spec64_tk_lfsr2(VG_T);
#define VC_skinny64_set_tk3 V64_TKN_CONTRACT(VG64_SNAP3, VG64_TK3_KEY, VG64_TK3_SIZE, VG64_TK3_N)
#define VE_skinny64_set_tk3 V64_TKN_ENTRY(VG64_TK3_KEY, VG64_TK3_SIZE, VG64_TK3_N)
#define VL_skinny64_set_tk3_1 V64_TKN_UNPACK_LOOP
#define VL_skinny64_set_tk3_2 V64_TKN_MAIN_LOOP(VG64_SNAP3)
#define VT_skinny64_set_tk3_2 \
    if (index == VG_J) { V64_COPY8(VG64_SNAP3, VG_T) } spec64_tk_permute(VG_T); spec64_tk_lfsr3(VG_T);

/* ---- set_key_inner / set_key / set_tweaked_key / set_tweak ---- */
#define V64_HAS2(key_size, tweak) ((tweak) ? 1 : ((key_size) > 8))
#define V64_HAS3(key_size, tweak) ((tweak) ? ((key_size) > 8) : ((key_size) > 16))
#define V64_ROUNDS(key_size, tweak) \
    ((tweak) ? ((key_size) == 8 ? 36u : 40u) : ((key_size) == 8 ? 32u : (key_size) <= 16 ? 36u : 40u))
#define V64_MIN8(x) ((x) < 8 ? (x) : 8)
#define V64_INNER_ROW0(key, key_size, tweak) \
    (((tweak) ? V64_TK1_EXP0(tweak, VG_J, 1) : V64_TK1_EXP0(key, VG_J, 0)) ^ \
     (V64_HAS2(key_size, tweak) ? VPACK16(VG64_SNAP2, 0) : 0u) ^ (V64_HAS3(key_size, tweak) ? VPACK16(VG64_SNAP3, 0) : 0u))
#define V64_INNER_ROW1(key, key_size, tweak) \
    (((tweak) ? V64_TK1_EXP1(tweak, VG_J) : V64_TK1_EXP1(key, VG_J)) ^ \
     (V64_HAS2(key_size, tweak) ? VPACK16(VG64_SNAP2, 1) : 0u) ^ (V64_HAS3(key_size, tweak) ? VPACK16(VG64_SNAP3, 1) : 0u))
#define V64_INNER_POST(ks, key, key_size, tweak) \
    ((ks)->rounds == V64_ROUNDS(key_size, tweak) && \
     (VG_J < (ks)->rounds ==> V64_SCHED_J_IS(ks, V64_INNER_ROW0(key, key_size, tweak), V64_INNER_ROW1(key, key_size, tweak))) && \
     (V64_HAS2(key_size, tweak) ==> (VG64_TK2_KEY == ((tweak) ? (const void *)(key) : (const void *)(VU8(key) + 8)) && \
                                   VG64_TK2_SIZE == ((tweak) ? V64_MIN8(key_size) : V64_MIN8((key_size) - 8)))) && \
     (V64_HAS3(key_size, tweak) ==> (VG64_TK3_KEY == ((tweak) ? (const void *)(VU8(key) + 8) : (const void *)(VU8(key) + 16)) && \
                                   VG64_TK3_SIZE == ((tweak) ? (key_size) - 8 : (key_size) - 16))))
#define V64_KEYGHOSTS \
    __CPROVER_object_whole(VG_T), __CPROVER_object_whole(VG64_SNAP2), __CPROVER_object_whole(VG64_SNAP3), VG64_OLD0, VG64_OLD1, \
    VG64_TK1_KEY, VG64_TK1_TWEAKED, VG64_TK1_N, VG64_TK2_KEY, VG64_TK2_SIZE, VG64_TK2_N, VG64_TK3_KEY, VG64_TK3_SIZE, VG64_TK3_N

#define VC_skinny64_set_key_inner \
    __CPROVER_requires(__CPROVER_is_fresh(ks, sizeof(Skinny64Key_t)) && VG_J < SKINNY64_MAX_ROUNDS) \
    __CPROVER_requires(8 <= key_size && key_size <= (tweak ? 16 : 24) && __CPROVER_is_fresh(key, key_size)) \
    __CPROVER_requires(tweak == NULL || __CPROVER_is_fresh(tweak, 8)) \
    __CPROVER_assigns(ks->rounds, V64_SCHED_REGION(ks), V64_KEYGHOSTS) \
    __CPROVER_ensures(V64_INNER_POST(ks, key, key_size, tweak)) \
    __CPROVER_ensures(VG64_TK1_N == __CPROVER_old(VG64_TK1_N) + 1) \
    __CPROVER_ensures(VG64_TK2_N == __CPROVER_old(VG64_TK2_N) + (V64_HAS2(key_size, tweak) ? 1 : 0)) \
    __CPROVER_ensures(VG64_TK3_N == __CPROVER_old(VG64_TK3_N) + (V64_HAS3(key_size, tweak) ? 1 : 0))

#define V64_SETKEY_OK(ks, key, size) ((ks) != NULL && (key) != NULL && (size) >= 8 && (size) <= 24)
#define VC_skinny64_set_key \
    __CPROVER_requires(ks == NULL || __CPROVER_is_fresh(ks, sizeof(Skinny64Key_t))) \
    __CPROVER_requires(key == NULL || __CPROVER_is_fresh(key, (size <= 32) ? size : 32)) \
    __CPROVER_requires(VG_J < SKINNY64_MAX_ROUNDS) \
    __CPROVER_assigns(V64_SETKEY_OK(ks, key, size): ks->rounds, V64_SCHED_REGION(ks), V64_KEYGHOSTS) \
    __CPROVER_ensures(__CPROVER_return_value == (V64_SETKEY_OK(ks, key, size) ? 1 : 0)) \
    __CPROVER_ensures(__CPROVER_return_value == 1 ==> V64_INNER_POST(ks, key, size, (const void *)0))

#define V64_TWEAK_ZERO(ks) ((ks)->tweak[0] == 0 && (ks)->tweak[1] == 0 && (ks)->tweak[2] == 0 && (ks)->tweak[3] == 0 && (ks)->tweak[4] == 0 && (ks)->tweak[5] == 0 && (ks)->tweak[6] == 0 && (ks)->tweak[7] == 0)
#define V64_TWEAK_IS_PADDED(ks, tw, n) ((ks)->tweak[0] == ((tw) && 0 < (n) ? VU8(tw)[0] : 0) && (ks)->tweak[1] == ((tw) && 1 < (n) ? VU8(tw)[1] : 0) && (ks)->tweak[2] == ((tw) && 2 < (n) ? VU8(tw)[2] : 0) && (ks)->tweak[3] == ((tw) && 3 < (n) ? VU8(tw)[3] : 0) && (ks)->tweak[4] == ((tw) && 4 < (n) ? VU8(tw)[4] : 0) && (ks)->tweak[5] == ((tw) && 5 < (n) ? VU8(tw)[5] : 0) && (ks)->tweak[6] == ((tw) && 6 < (n) ? VU8(tw)[6] : 0) && (ks)->tweak[7] == ((tw) && 7 < (n) ? VU8(tw)[7] : 0))

#define V64_SETTKEY_OK(ks, key, size) ((ks) != NULL && (key) != NULL && (size) >= 8 && (size) <= 16)
#define VC_skinny64_set_tweaked_key \
    __CPROVER_requires(ks == NULL || __CPROVER_is_fresh(ks, sizeof(Skinny64TweakedKey_t))) \
    __CPROVER_requires(key == NULL || __CPROVER_is_fresh(key, (key_size <= 32) ? key_size : 32)) \
    __CPROVER_requires(VG_J < SKINNY64_MAX_ROUNDS) \
    __CPROVER_assigns(V64_SETTKEY_OK(ks, key, key_size): __CPROVER_object_upto((void *)ks, sizeof(Skinny64TweakedKey_t)), V64_KEYGHOSTS) \
    __CPROVER_ensures(__CPROVER_return_value == (V64_SETTKEY_OK(ks, key, key_size) ? 1 : 0)) \
    __CPROVER_ensures(__CPROVER_return_value == 1 ==> V64_TWEAK_ZERO(ks)) \
    __CPROVER_ensures(__CPROVER_return_value == 1 ==> V64_INNER_POST(&ks->ks, key, key_size, ks->tweak))

static uint16_t VG64_KP0, VG64_KP1;
#define V64_VIEW0(ks) ((uint16_t)((ks)->ks.schedule[VG_J].row[0] ^ V64_TK1ROW((ks)->tweak, VG_J, 0)))
#define V64_VIEW1(ks) ((uint16_t)((ks)->ks.schedule[VG_J].row[1] ^ V64_TK1ROW((ks)->tweak, VG_J, 1)))
#define V64_SETTWEAK_OK(ks, size) ((ks) != NULL && (size) >= 1 && (size) <= 8)
#define VC_skinny64_set_tweak \
    __CPROVER_requires(ks == NULL || __CPROVER_is_fresh(ks, sizeof(Skinny64TweakedKey_t))) \
    __CPROVER_requires(ks == NULL || ks->ks.rounds <= SKINNY64_MAX_ROUNDS) \
    __CPROVER_requires(tweak == NULL || __CPROVER_is_fresh(tweak, (tweak_size <= 8) ? tweak_size : 8)) \
    __CPROVER_requires(VG_J < SKINNY64_MAX_ROUNDS) \
    __CPROVER_assigns(V64_SETTWEAK_OK(ks, tweak_size): __CPROVER_object_upto((void *)ks->ks.schedule, sizeof(ks->ks.schedule)), \
                      __CPROVER_object_upto(ks->tweak, 8)) \
    __CPROVER_assigns(VG64_OLD0, VG64_OLD1, VG64_KP0, VG64_KP1) \
    __CPROVER_ensures(__CPROVER_return_value == (V64_SETTWEAK_OK(ks, tweak_size) ? 1 : 0)) \
    __CPROVER_ensures(__CPROVER_return_value == 1 ==> ks->ks.rounds == __CPROVER_old(ks->ks.rounds)) \
    __CPROVER_ensures(__CPROVER_return_value == 1 ==> V64_TWEAK_IS_PADDED(ks, tweak, tweak_size)) \
    __CPROVER_ensures((__CPROVER_return_value == 1 && VG_J < ks->ks.rounds) ==> (V64_VIEW0(ks) == VG64_KP0 && V64_VIEW1(ks) == VG64_KP1))
#define VE_skinny64_set_tweak \
    if (ks) { VG64_KP0 = V64_VIEW0(ks); VG64_KP1 = V64_VIEW1(ks); }

#endif
