/* Contracts for class CTRCommon (the body of the CTR<T> template) of the Arduino port
 * (arduino/libraries/Skinny/CTR.cpp), checked on the C translation unit extracted on every run.
 *
 * The object is the set of file-scope variables counter[16], state[16], posn, counterStart; the block
 * cipher behind the dropped interface pointer is the family of external functions BlockCipher__*()
 * which carry ROLE contracts here (what CTRCommon may assume about them and must guarantee when it
 * calls them); the eleven cipher classes are proved against their own contracts separately.
 *
 * What the C library's generic CTR back end does (contracts/skinny128-ctr.h, property C05/C06) and
 * what is therefore demanded here:
 *   - a successful key change and a counter change both reset the keystream to a block boundary;
 *   - data byte i of a call is xored with keystream byte (p0 + i) where the stream is
 *     buffered-block[p0..15] ++ E(c) ++ E(c+1) ++ ..., + being big-endian addition on the low
 *     (16 - counterStart) bytes; afterwards the counter has advanced by the number of blocks generated. */
#ifndef CONTRACTS_ARDUINO_CTR_H
#define CONTRACTS_ARDUINO_CTR_H
#include <stdbool.h>
#include "arduino-common.h"

#define ACTR_INV (posn <= 16 && counterStart <= 15)

/* ---- ghost state ---- */
static size_t VGC_NB;              /* encryptBlock calls so far in this call of encrypt */
static size_t VGC_KB;              /* witness block index */
static uint8_t VGC_EOUT[16];       /* result of the witness encryptBlock call (arbitrary, fixed) */
static uint8_t VGC_CIN[16];        /* its input block */
static int VGC_HAVE;               /* the witness call has happened */
static uint8_t VGC_P0, VGC_CS;     /* posn / counterStart at entry */
static vu128 VGC_C0, VGC_CB;       /* counter value at entry / before the increment in progress */
static size_t VGC_LEN0;
static uint8_t *VGC_OUT0; static const uint8_t *VGC_IN0;
static uint8_t VGC_INW, VGC_S0A;   /* input[W] and buffered keystream byte [p0 + W] at entry */
static uint8_t VGC_T0, VGC_PP;     /* loop 3: templen and posn at its start */
static size_t VGC_DB;              /* loop 3: bytes done before it */
/* ghost call log of the interface functions */
static unsigned VGC_SK_N; static const void *VGC_SK_KEY; static size_t VGC_SK_LEN; static int VGC_SK_RET;
static size_t VGC_BS; static unsigned VGC_CLR_N;

/* low m bytes mask and addition on the low m bytes of a 128-bit big-endian value */
#define ACTR_LOWMASK(m) ((m) >= 16 ? ~(vu128)0 : ((((vu128)1) << (8 * (m))) - 1))
#define ACTR_ADD(c, n, m) (((c) & ~ACTR_LOWMASK(m)) | (((c) + (vu128)(n)) & ACTR_LOWMASK(m)))
#define ACTR_EQ16(a, b) ((a)[0] == (b)[0] && (a)[1] == (b)[1] && (a)[2] == (b)[2] && (a)[3] == (b)[3] && (a)[4] == (b)[4] && (a)[5] == (b)[5] && (a)[6] == (b)[6] && (a)[7] == (b)[7] && \
                         (a)[8] == (b)[8] && (a)[9] == (b)[9] && (a)[10] == (b)[10] && (a)[11] == (b)[11] && (a)[12] == (b)[12] && (a)[13] == (b)[13] && (a)[14] == (b)[14] && (a)[15] == (b)[15])

#define ACTR_O(p, k, sh) ((vu128)__CPROVER_old((p)[k]) << (sh))
#define ACTR_BE128_OLD(p) (ACTR_O(p, 0, 120) | ACTR_O(p, 1, 112) | ACTR_O(p, 2, 104) | ACTR_O(p, 3, 96) | ACTR_O(p, 4, 88) | ACTR_O(p, 5, 80) | ACTR_O(p, 6, 72) | ACTR_O(p, 7, 64) | \
                           ACTR_O(p, 8, 56) | ACTR_O(p, 9, 48) | ACTR_O(p, 10, 40) | ACTR_O(p, 11, 32) | ACTR_O(p, 12, 24) | ACTR_O(p, 13, 16) | ACTR_O(p, 14, 8) | ACTR_O(p, 15, 0))

/* ---- role contracts of the block cipher interface ---- */
#define VC_BlockCipher__blockSize \
    __CPROVER_assigns() __CPROVER_ensures(__CPROVER_return_value == VGC_BS)
#define VC_BlockCipher__keySize __CPROVER_assigns()
#define VC_BlockCipher__setKey \
    __CPROVER_assigns(VGC_SK_N, VGC_SK_KEY, VGC_SK_LEN, VGC_SK_RET) \
    __CPROVER_ensures(VGC_SK_N == __CPROVER_old(VGC_SK_N) + 1 && VGC_SK_KEY == key && VGC_SK_LEN == len && VGC_SK_RET == (__CPROVER_return_value ? 1 : 0))
#define VC_BlockCipher__clear \
    __CPROVER_assigns(VGC_CLR_N) __CPROVER_ensures(VGC_CLR_N == __CPROVER_old(VGC_CLR_N) + 1)
#define VC_BlockCipher__decryptBlock __CPROVER_requires(0) __CPROVER_assigns()   /* never called by CTR */
#define VC_BlockCipher__encryptBlock \
    __CPROVER_requires(output == state && input == counter)   /* role: the buffered block from the counter block */ \
    __CPROVER_assigns(__CPROVER_object_whole(state), VGC_NB, VGC_HAVE, __CPROVER_object_whole(VGC_CIN)) \
    __CPROVER_ensures(VGC_NB == __CPROVER_old(VGC_NB) + 1) \
    __CPROVER_ensures(__CPROVER_old(VGC_NB) == VGC_KB ==> (VGC_HAVE == 1 && ACTR_EQ16(VGC_CIN, counter) && ACTR_EQ16(state, VGC_EOUT))) \
    __CPROVER_ensures(__CPROVER_old(VGC_NB) != VGC_KB ==> (VGC_HAVE == __CPROVER_old(VGC_HAVE) && \
        VGC_CIN[0] == __CPROVER_old(VGC_CIN[0]) && VGC_CIN[1] == __CPROVER_old(VGC_CIN[1]) && VGC_CIN[2] == __CPROVER_old(VGC_CIN[2]) && VGC_CIN[3] == __CPROVER_old(VGC_CIN[3]) && \
        VGC_CIN[4] == __CPROVER_old(VGC_CIN[4]) && VGC_CIN[5] == __CPROVER_old(VGC_CIN[5]) && VGC_CIN[6] == __CPROVER_old(VGC_CIN[6]) && VGC_CIN[7] == __CPROVER_old(VGC_CIN[7]) && \
        VGC_CIN[8] == __CPROVER_old(VGC_CIN[8]) && VGC_CIN[9] == __CPROVER_old(VGC_CIN[9]) && VGC_CIN[10] == __CPROVER_old(VGC_CIN[10]) && VGC_CIN[11] == __CPROVER_old(VGC_CIN[11]) && \
        VGC_CIN[12] == __CPROVER_old(VGC_CIN[12]) && VGC_CIN[13] == __CPROVER_old(VGC_CIN[13]) && VGC_CIN[14] == __CPROVER_old(VGC_CIN[14]) && VGC_CIN[15] == __CPROVER_old(VGC_CIN[15])))

/* ---- setCounterSize ---- */
#define VC_CTRCommon__setCounterSize \
    __CPROVER_requires(ACTR_INV) \
    __CPROVER_assigns(size >= 1 && size <= 16: counterStart) \
    __CPROVER_ensures(__CPROVER_return_value == (size >= 1 && size <= 16)) \
    __CPROVER_ensures(__CPROVER_return_value ==> counterStart == 16 - size)

/* ---- setKey: delegated once with the same arguments when the cipher has 16-byte blocks; a successful key
 *      change resets the keystream (the library: ctx->offset = BLOCK_SIZE in every *_ctr_def_set_key) ---- */
#define VC_CTRCommon__setKey \
    __CPROVER_requires(ACTR_INV) \
    __CPROVER_assigns(posn, VGC_SK_N, VGC_SK_KEY, VGC_SK_LEN, VGC_SK_RET) \
    __CPROVER_ensures(VGC_BS != 16 ==> (__CPROVER_return_value == 0 && VGC_SK_N == __CPROVER_old(VGC_SK_N) && posn == __CPROVER_old(posn))) \
    __CPROVER_ensures(VGC_BS == 16 ==> (VGC_SK_N == __CPROVER_old(VGC_SK_N) + 1 && VGC_SK_KEY == key && VGC_SK_LEN == len && (__CPROVER_return_value ? 1 : 0) == VGC_SK_RET)) \
    __CPROVER_ensures(__CPROVER_return_value ? posn == 16 : posn == __CPROVER_old(posn))

/* ---- setIV: 16 bytes only; counter := iv, keystream reset ---- */
#define VC_CTRCommon__setIV \
    __CPROVER_requires(ACTR_INV) \
    __CPROVER_requires(len != 16 || __CPROVER_is_fresh(iv, 16)) \
    __CPROVER_assigns(len == 16: __CPROVER_object_whole(counter), posn) \
    __CPROVER_ensures(__CPROVER_return_value == (len == 16)) \
    __CPROVER_ensures(__CPROVER_return_value ==> (posn == 16 && ACTR_EQ16(counter, iv)))

/* ---- clear ---- */
#define VC_CTRCommon__clear \
    __CPROVER_requires(ACTR_INV && VG_W < 16) \
    __CPROVER_assigns(__CPROVER_object_whole(counter), __CPROVER_object_whole(state), posn, VGC_CLR_N) \
    __CPROVER_ensures(posn == 16 && counter[VG_W] == 0 && state[VG_W] == 0 && VGC_CLR_N == __CPROVER_old(VGC_CLR_N) + 1)

/* ---- encrypt ---- */
#ifndef ACTR_MAXLEN
#define ACTR_MAXLEN ((size_t)1 << 40)
#endif
#define ACTR_A(i) ((size_t)VGC_P0 + (i))                     /* absolute keystream position of data byte i */
#define ACTR_KS (ACTR_A(VG_W) < 16 ? VGC_S0A : VGC_EOUT[(ACTR_A(VG_W) - 16) & 15])
#define ACTR_NBFINAL ((ACTR_A(VGC_LEN0) <= 16) ? (size_t)0 : ((ACTR_A(VGC_LEN0) - 1) >> 4))
#define ACTR_GHOSTS \
    VGC_NB, VGC_HAVE, __CPROVER_object_whole(VGC_CIN), VGC_P0, VGC_CS, VGC_C0, VGC_CB, VGC_LEN0, VGC_OUT0, VGC_IN0, VGC_INW, VGC_S0A, VGC_T0, VGC_PP, VGC_DB
#define VC_CTRCommon__encrypt \
    __CPROVER_requires(ACTR_INV && len <= ACTR_MAXLEN && VG_W < len) \
    __CPROVER_requires(__CPROVER_is_fresh(input, len)) \
    __CPROVER_requires(__CPROVER_is_fresh(output, len) || __CPROVER_pointer_equals(output, (void *)input)) \
    __CPROVER_requires(VGC_KB == (((size_t)posn + VG_W) < 16 ? ~(size_t)0 : ((((size_t)posn + VG_W) - 16) >> 4)))   /* the block that holds keystream byte W (none: ~0) */ \
    __CPROVER_assigns(__CPROVER_object_upto(output, len), __CPROVER_object_whole(counter), __CPROVER_object_whole(state), posn, ACTR_GHOSTS) \
    __CPROVER_ensures(VGC_P0 == __CPROVER_old(posn) && VGC_C0 == ACTR_BE128_OLD(counter) && VGC_LEN0 == len && VGC_OUT0 == output && VGC_CS == __CPROVER_old(counterStart) && \
                      VGC_INW == __CPROVER_old(input[VG_W]) && VGC_S0A == __CPROVER_old(state[(posn + VG_W) & 15]))   /* the ghosts name the entry state */ \
    __CPROVER_ensures(output[VG_W] == (uint8_t)(VGC_INW ^ ACTR_KS)) \
    __CPROVER_ensures(ACTR_A(VG_W) >= 16 ==> (VGC_HAVE == 1 && VBE128(VGC_CIN) == ACTR_ADD(VGC_C0, VGC_KB, 16 - VGC_CS))) \
    __CPROVER_ensures(VGC_NB == ACTR_NBFINAL && VBE128(counter) == ACTR_ADD(VGC_C0, VGC_NB, 16 - VGC_CS)) \
    __CPROVER_ensures(posn == ACTR_A(VGC_LEN0) - 16 * VGC_NB && counterStart == VGC_CS) \
    __CPROVER_ensures((VGC_NB >= 1 && VGC_KB == VGC_NB - 1) ==> ACTR_EQ16(state, VGC_EOUT))
#define VE_CTRCommon__encrypt \
    VGC_NB = 0; VGC_HAVE = 0; VGC_P0 = posn; VGC_CS = counterStart; VGC_C0 = VBE128(counter); VGC_LEN0 = len; \
    VGC_OUT0 = output; VGC_IN0 = input; VGC_INW = input[VG_W]; VGC_S0A = state[(VGC_P0 + VG_W) & 15];
#define ACTR_DONE (VGC_LEN0 - len)
#define ACTR_POSREL(done) ((VGC_NB == 0) ? ((size_t)posn == ACTR_A(done)) : (posn >= 1 && 16 * VGC_NB + posn == ACTR_A(done)))
#define ACTR_COMMON_INV(done) \
    (posn <= 16 && counterStart == VGC_CS && VGC_CS <= 15 && VGC_NB <= (VGC_LEN0 >> 4) + 1 && \
     VBE128(counter) == ACTR_ADD(VGC_C0, VGC_NB, 16 - VGC_CS) && \
     (VG_W >= (done) ==> VGC_IN0[VG_W] == VGC_INW) && \
     ((VGC_NB == 0 && ACTR_A(VG_W) < 16) ==> state[(VGC_P0 + VG_W) & 15] == VGC_S0A) && \
     ((VGC_KB != ~(size_t)0 && VGC_NB == VGC_KB + 1) ==> ACTR_EQ16(state, VGC_EOUT)) && \
     ((VGC_NB > VGC_KB && VGC_KB != ~(size_t)0) ==> (VGC_HAVE == 1 && VBE128(VGC_CIN) == ACTR_ADD(VGC_C0, VGC_KB, 16 - VGC_CS))))
#define VL_CTRCommon__encrypt_1 \
    __CPROVER_assigns(len, output, input, posn, __CPROVER_object_upto(VGC_OUT0, VGC_LEN0), __CPROVER_object_whole(counter), __CPROVER_object_whole(state), \
                      VGC_NB, VGC_HAVE, __CPROVER_object_whole(VGC_CIN), VGC_CB, VGC_T0, VGC_PP, VGC_DB) \
    __CPROVER_loop_invariant(len <= VGC_LEN0) \
    __CPROVER_loop_invariant(output == VGC_OUT0 + ACTR_DONE && input == VGC_IN0 + ACTR_DONE) \
    __CPROVER_loop_invariant(ACTR_COMMON_INV(ACTR_DONE)) \
    __CPROVER_loop_invariant(ACTR_POSREL(ACTR_DONE)) \
    __CPROVER_loop_invariant(VG_W < ACTR_DONE ==> VGC_OUT0[VG_W] == (uint8_t)(VGC_INW ^ ACTR_KS)) \
    __CPROVER_decreases(len)
#define VT_CTRCommon__encrypt_1 \
    __CPROVER_assert(output == VGC_OUT0 + ACTR_DONE && input == VGC_IN0 + ACTR_DONE, "ptr-norm: data cursors"); \
    output = VGC_OUT0 + ACTR_DONE; input = VGC_IN0 + ACTR_DONE;
/* loop 2: big-endian increment of the low (16 - counterStart) bytes, carry in temp */
#define VP_CTRCommon__encrypt_2 VGC_CB = VBE128(counter);
#define VL_CTRCommon__encrypt_2 \
    __CPROVER_assigns(index, temp, __CPROVER_object_whole(counter)) \
    __CPROVER_loop_invariant(counterStart <= index && index <= 16) \
    __CPROVER_loop_invariant(VBE128(counter) == ACTR_ADD(VGC_CB, 1, 16 - index)) \
    __CPROVER_loop_invariant(temp == ((((VGC_CB + 1) & ACTR_LOWMASK(16 - index)) == 0) ? 1 : 0)) \
    __CPROVER_decreases(index)
/* loop 3: the data bytes of this round */
#define VP_CTRCommon__encrypt_3 VGC_T0 = templen; VGC_PP = posn; VGC_DB = VGC_LEN0 - len - templen;
#define ACTR_DONE3 (VGC_DB + (size_t)(VGC_T0 - templen))
#define VL_CTRCommon__encrypt_3 \
    __CPROVER_assigns(templen, output, input, posn, __CPROVER_object_upto(VGC_OUT0, VGC_LEN0)) \
    __CPROVER_loop_invariant(templen <= VGC_T0 && VGC_T0 <= 16 && VGC_PP + VGC_T0 <= 16 && VGC_DB + VGC_T0 <= VGC_LEN0) \
    __CPROVER_loop_invariant(posn == VGC_PP + (VGC_T0 - templen)) \
    __CPROVER_loop_invariant(output == VGC_OUT0 + ACTR_DONE3 && input == VGC_IN0 + ACTR_DONE3) \
    __CPROVER_loop_invariant(VG_W >= ACTR_DONE3 ==> VGC_IN0[VG_W] == VGC_INW) \
    __CPROVER_loop_invariant(VG_W < VGC_DB ==> VGC_OUT0[VG_W] == (uint8_t)(VGC_INW ^ ACTR_KS)) \
    __CPROVER_loop_invariant((VG_W >= VGC_DB && VG_W < ACTR_DONE3) ==> VGC_OUT0[VG_W] == (uint8_t)(VGC_INW ^ state[(VGC_PP + (VG_W - VGC_DB)) & 15])) \
    __CPROVER_decreases(templen)
#define VT_CTRCommon__encrypt_3 \
    __CPROVER_assert(output == VGC_OUT0 + ACTR_DONE3 && input == VGC_IN0 + ACTR_DONE3, "ptr-norm: data cursors"); \
    output = VGC_OUT0 + ACTR_DONE3; input = VGC_IN0 + ACTR_DONE3;

/* ---- decrypt is encrypt ---- */
#define VC_CTRCommon__decrypt VC_CTRCommon__encrypt

#endif
