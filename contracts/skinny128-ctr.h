/* Contracts for src/skinny128-ctr.c: generic CTR back end + public dispatch. */
#ifndef CONTRACTS_SKINNY128_CTR_H
#define CONTRACTS_SKINNY128_CTR_H
#include "ctr-common.h"
#include "skinny128-cipher.h"

#ifdef VERIF_ROLE_CTR
#define V128C_E_CONTRACT VC_skinny128_ecb_encrypt_ROLE
#else
#define V128C_E_CONTRACT VC_skinny128_ecb_encrypt
#endif
#define V128C_CTX Skinny128CTRCtx_t
#define V128C_B 16

/* callee contracts (proved in the skinny128-cipher.c jobs) attached to the declarations */
#define V128C_CALLEE_DECLS \
    int skinny128_set_key(Skinny128Key_t *ks, const void *key, unsigned size) VC_skinny128_set_key; \
    int skinny128_set_tweaked_key(Skinny128TweakedKey_t *ks, const void *key, unsigned key_size) VC_skinny128_set_tweaked_key; \
    int skinny128_set_tweak(Skinny128TweakedKey_t *ks, const void *tweak, unsigned tweak_size) VC_skinny128_set_tweak; \
    void skinny128_ecb_encrypt(void *output, const void *input, const Skinny128Key_t *ks) V128C_E_CONTRACT;

/* ---- life cycle ---- */
#define VC_skinny128_ctr_def_init VCTR_INIT_CONTRACT(Skinny128CTR_t, V128C_CTX, V128C_B)
#define VC_skinny128_ctr_def_cleanup VCTR_CLEANUP_CONTRACT(Skinny128CTR_t, V128C_CTX)
#define VE_skinny128_ctr_def_cleanup VCTR_CLEANUP_ENTRY(V128C_CTX)

/* ---- key / tweak setters of the back end: result and effect of the cipher's setter on
 *      the embedded schedule, keystream reset; on failure nothing changes ---- */
#define V128C_CTXP ((V128C_CTX *)ctr->ctx)
#define V128C_SETKEY_OK (key != NULL && ctr->ctx != NULL && size >= 16 && size <= 48)
#define VC_skinny128_ctr_def_set_key \
    __CPROVER_requires(VCTR_HANDLE_OK(ctr, Skinny128CTR_t, V128C_CTX)) \
    __CPROVER_requires(key == NULL || __CPROVER_is_fresh(key, (size <= 64) ? size : 64)) \
    __CPROVER_requires(VG_J < SKINNY128_MAX_ROUNDS) \
    __CPROVER_assigns(V128C_SETKEY_OK: V128C_CTXP->kt.ks.rounds, V128_SCHED_REGION(&V128C_CTXP->kt.ks), V128C_CTXP->offset, V128_KEYGHOSTS) \
    __CPROVER_ensures(__CPROVER_return_value == (V128C_SETKEY_OK ? 1 : 0)) \
    __CPROVER_ensures(__CPROVER_return_value == 1 ==> (V128C_CTXP->offset == V128C_B && V128_INNER_POST(&V128C_CTXP->kt.ks, key, size, (const void *)0)))

#define V128C_SETTKEY_OK (key != NULL && ctr->ctx != NULL && key_size >= 16 && key_size <= 32)
#define VC_skinny128_ctr_def_set_tweaked_key \
    __CPROVER_requires(VCTR_HANDLE_OK(ctr, Skinny128CTR_t, V128C_CTX)) \
    __CPROVER_requires(key == NULL || __CPROVER_is_fresh(key, (key_size <= 64) ? key_size : 64)) \
    __CPROVER_requires(VG_J < SKINNY128_MAX_ROUNDS) \
    __CPROVER_assigns(V128C_SETTKEY_OK: __CPROVER_object_upto((void *)&V128C_CTXP->kt, sizeof(Skinny128TweakedKey_t)), V128C_CTXP->offset, V128_KEYGHOSTS) \
    __CPROVER_ensures(__CPROVER_return_value == (V128C_SETTKEY_OK ? 1 : 0)) \
    __CPROVER_ensures(__CPROVER_return_value == 1 ==> (V128C_CTXP->offset == V128C_B && V128_TWEAK_ZERO(&V128C_CTXP->kt) && \
                      V128_INNER_POST(&V128C_CTXP->kt.ks, key, key_size, V128C_CTXP->kt.tweak)))

#define V128C_SETTWEAK_OK (ctr->ctx != NULL && tweak_size >= 1 && tweak_size <= 16)
#define VC_skinny128_ctr_def_set_tweak \
    __CPROVER_requires(VCTR_HANDLE_OK(ctr, Skinny128CTR_t, V128C_CTX)) \
    __CPROVER_requires(ctr->ctx == NULL || V128C_CTXP->kt.ks.rounds <= SKINNY128_MAX_ROUNDS) \
    __CPROVER_requires(tweak == NULL || __CPROVER_is_fresh(tweak, (tweak_size <= 16) ? tweak_size : 16)) \
    __CPROVER_requires(VG_J < SKINNY128_MAX_ROUNDS) \
    __CPROVER_assigns(V128C_SETTWEAK_OK: __CPROVER_object_upto((void *)V128C_CTXP->kt.ks.schedule, sizeof(V128C_CTXP->kt.ks.schedule)), \
                      __CPROVER_object_upto(V128C_CTXP->kt.tweak, 16), V128C_CTXP->offset) \
    __CPROVER_assigns(__CPROVER_object_whole(VG_T), VG_OLD0, VG_OLD1, VG_KP0, VG_KP1) \
    __CPROVER_ensures(__CPROVER_return_value == (V128C_SETTWEAK_OK ? 1 : 0)) \
    __CPROVER_ensures(__CPROVER_return_value == 1 ==> (V128C_CTXP->offset == V128C_B && V128_TWEAK_IS_PADDED(&V128C_CTXP->kt, tweak, tweak_size)))

/* ---- set_counter: counter block = size bytes left-padded with zeros (NULL: all zero),
 *      keystream reset; key schedule and tweak untouched (frame) ---- */
#define V128C_SETCTR_OK (ctr->ctx != NULL && size <= 16)
#define V128C_CTR_BYTE(i) (V128C_CTXP->counter[i] == ((counter != NULL && (i) >= 16 - size) ? VU8(counter)[(i) - (16 - size)] : 0))
#define VC_skinny128_ctr_def_set_counter \
    __CPROVER_requires(VCTR_HANDLE_OK(ctr, Skinny128CTR_t, V128C_CTX)) \
    __CPROVER_requires(counter == NULL || __CPROVER_is_fresh(counter, (size <= 16) ? size : 16)) \
    __CPROVER_assigns(V128C_SETCTR_OK: __CPROVER_object_upto(V128C_CTXP->counter, 16), V128C_CTXP->offset) \
    __CPROVER_ensures(__CPROVER_return_value == (V128C_SETCTR_OK ? 1 : 0)) \
    __CPROVER_ensures(__CPROVER_return_value == 1 ==> (V128C_CTXP->offset == V128C_B && \
        V128C_CTR_BYTE(0) && V128C_CTR_BYTE(1) && V128C_CTR_BYTE(2) && V128C_CTR_BYTE(3) && \
        V128C_CTR_BYTE(4) && V128C_CTR_BYTE(5) && V128C_CTR_BYTE(6) && V128C_CTR_BYTE(7) && \
        V128C_CTR_BYTE(8) && V128C_CTR_BYTE(9) && V128C_CTR_BYTE(10) && V128C_CTR_BYTE(11) && \
        V128C_CTR_BYTE(12) && V128C_CTR_BYTE(13) && V128C_CTR_BYTE(14) && V128C_CTR_BYTE(15)))

/* ========================================================================
 * C05 layer B: skinny128_ctr_def_encrypt as a coverage contract (see ctr-common.h).
 * Callees carry ROLE contracts in this TU (checked at every call site):
 *   skinny128_ecb_encrypt  must be called on (ecounter, counter, schedule of this context)
 *   skinny128_inc_counter  must be called on the counter with increment 1
 *   skinny128_xor/skinny_xor  must combine data [GP, GP+n) with the keystream bytes at the
 *                             matching absolute position
 * Their functional contracts are proved elsewhere: C01 (E), layer A jobs (xor, inc_counter).
 * ====================================================================== */
#ifdef VERIF_ROLE_CTR
static const uint8_t *VG_CTRP; static const void *VG_KSP;
#define VC_skinny128_ecb_encrypt_ROLE \
    __CPROVER_requires((const uint8_t *)output == VG_KS && (const uint8_t *)input == VG_CTRP && (const void *)ks == VG_KSP) \
    __CPROVER_requires(VBE128(VU8(input)) == VG_C) \
    __CPROVER_assigns(__CPROVER_object_upto((uint8_t *)output, 16), VG_EBLK) \
    __CPROVER_ensures(VG_EBLK == VG_C)
#define VC_skinny128_inc_counter \
    __CPROVER_requires((const uint8_t *)counter == VG_CTRP && inc == 1 && VBE128(counter) == VG_C) \
    __CPROVER_assigns(__CPROVER_object_upto(counter, 16), VG_C) \
    __CPROVER_ensures(VG_C == __CPROVER_old(VG_C) + 1 && VBE128(counter) == VG_C)
#define VC_skinny128_xor VCTR_XOR_ROLE(output, input1, input2, 16, 16)
#define VC_skinny_xor VCTR_XOR_ROLE(output, input1, input2, size, 16)

#define V128C_REP(ctxp) \
    ((ctxp)->offset <= 16 && VG_C == VBE128((ctxp)->counter) && ((ctxp)->offset < 16 ==> VG_EBLK == VG_C - 1))
#define V128C_ENC_OK (output != NULL && input != NULL && ctr->ctx != NULL)
#define VC_skinny128_ctr_def_encrypt \
    __CPROVER_requires(VCTR_HANDLE_OK(ctr, Skinny128CTR_t, V128C_CTX)) \
    __CPROVER_requires(size <= VERIF_MAX_DATA) \
    __CPROVER_requires(input == NULL || __CPROVER_is_fresh(input, size)) \
    __CPROVER_requires(output == NULL || __CPROVER_is_fresh(output, size) || __CPROVER_pointer_equals(output, (void *)input)) \
    __CPROVER_requires(ctr->ctx == NULL || V128C_REP(V128C_CTXP)) \
    __CPROVER_assigns(V128C_ENC_OK: __CPROVER_object_upto((uint8_t *)output, size), \
                      __CPROVER_object_upto(V128C_CTXP->counter, 16), __CPROVER_object_upto(V128C_CTXP->ecounter, 16), V128C_CTXP->offset) \
    __CPROVER_assigns(VG_C, VG_C0, VG_EBLK, VG_GP, VG_O0, VG_V0, VG_OUT, VG_IN, VG_KS, VG_CTRP, VG_KSP) \
    __CPROVER_ensures(__CPROVER_return_value == (V128C_ENC_OK ? 1 : 0)) \
    __CPROVER_ensures(__CPROVER_return_value == 1 ==> (VG_GP == size && V128C_REP(V128C_CTXP) && \
                      (VG_C - VG_C0) * 16 + V128C_CTXP->offset == (vu128)VG_O0 + size))
#define VE_skinny128_ctr_def_encrypt \
    VG_V0 = size; VG_GP = 0; VG_OUT = (uint8_t *)output; VG_IN = (const uint8_t *)input; \
    if (ctr->ctx) { VG_C0 = VG_C; VG_O0 = V128C_CTXP->offset; VG_KS = V128C_CTXP->ecounter; \
                    VG_CTRP = V128C_CTXP->counter; VG_KSP = &V128C_CTXP->kt.ks; }
#define VL_skinny128_ctr_def_encrypt_1 \
    __CPROVER_assigns(size, out, in, VG_GP, VG_C, VG_EBLK, __CPROVER_object_upto(VG_OUT, VG_V0), \
                      __CPROVER_object_upto(ctx->counter, 16), __CPROVER_object_upto(ctx->ecounter, 16), ctx->offset) \
    __CPROVER_loop_invariant(size <= VG_V0 && VG_GP == VG_V0 - size) \
    __CPROVER_loop_invariant(out == VG_OUT + VG_GP && in == VG_IN + VG_GP) \
    __CPROVER_loop_invariant(V128C_REP(ctx)) \
    __CPROVER_loop_invariant((VG_C - VG_C0) <= (VG_GP / 16) + 1) \
    __CPROVER_loop_invariant((VG_C - VG_C0) * 16 + ctx->offset == (vu128)VG_O0 + VG_GP) \
    __CPROVER_decreases(size)
/* 2.2(b) checked pointer re-normalisation: the assignment is a no-op proved by the assertion */
#define VT_skinny128_ctr_def_encrypt_1 \
    __CPROVER_assert(out == VG_OUT + (VG_V0 - size) && in == VG_IN + (VG_V0 - size), "ptr-norm"); \
    out = VG_OUT + (VG_V0 - size); in = VG_IN + (VG_V0 - size);
#endif /* VERIF_ROLE_CTR */

#endif
