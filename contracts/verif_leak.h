/* C08: leakage ghost state for the two-run self-composition.  Every branch operand and every
 * non-constant subscript of the real code passes through VLK_B / VLK_I (inserted by
 * engine/instrument.py).  Run 1 records the observation at an ARBITRARY witness position; run 2 (same
 * public parameters, independently chosen secrets) must produce the same observation at that position
 * and the same number of observations: the sequence of branches taken and indices used is then a
 * function of the public parameters only. */
#ifndef VERIF_LEAK_H
#define VERIF_LEAK_H
#include <stdint.h>
#include <stddef.h>
#include <stdlib.h>
static unsigned VG_LN;      /* observations so far in the current run */
static unsigned VG_LN1;     /* number of observations of run 1 */
static unsigned VG_LW;      /* witness position (arbitrary) */
static long VG_LV1;         /* run 1's observation at the witness position */
static int VG_LHIT1;
static int VG_RUN;          /* 1 or 2 */
static inline long verif_leak(long v)
{
    if (VG_RUN == 1) {
        if (VG_LN == VG_LW) { VG_LV1 = v; VG_LHIT1 = 1; }
    } else {
        if (VG_LN == VG_LW)
            __CPROVER_assert(VG_LHIT1 && VG_LV1 == v, "C08 same branch/index observation in both runs");
    }
    VG_LN = VG_LN + 1;
    return v;
}
#define VLK_B(e) (verif_leak((long)((e) != 0)) != 0)
#define VLK_I(e) (verif_leak((long)(e)))
unsigned nondet_unsigned(void);
#define VLEAK_BEGIN() do { VG_LW = nondet_unsigned(); VG_RUN = 1; VG_LN = 0; VG_LHIT1 = 0; } while (0)
#define VLEAK_SECOND() do { VG_LN1 = VG_LN; VG_LN = 0; VG_RUN = 2; } while (0)
#define VLEAK_END(minobs) do { \
        __CPROVER_assert(VG_LN == VG_LN1, "C08 same number of observations in both runs"); \
        __CPROVER_assert(VG_LN1 < (minobs), "canary-reachable"); \
    } while (0)
/* malloc'ed, hence nondeterministic, secret of n bytes */
#define VSECRET(T, name, n) T *name = (T *)malloc(n); __CPROVER_assume(name != NULL)
#endif
