/* Shared ghost vocabulary for all contracts.  Included by every harness TU
 * BEFORE the instrumented real source.  Nothing here is executable code of the
 * library; it is ghost state, packing macros and the generated spec. */
#ifndef VERIF_COMMON_H
#define VERIF_COMMON_H
#include <stdint.h>
#include <stddef.h>
#include "spec_gen.h"

/* byte k (little-endian) of word w */
#define VBYTE(w, k) ((uint8_t)((w) >> (8 * (k))))
/* SKINNY-128: row r of 16 byte-cells as the little-endian 32-bit word */
#define VPACK32(g, r) ((uint32_t)(g)[4 * (r)] | ((uint32_t)(g)[4 * (r) + 1] << 8) | \
                       ((uint32_t)(g)[4 * (r) + 2] << 16) | ((uint32_t)(g)[4 * (r) + 3] << 24))
/* SKINNY-64 / MANTIS: row r of 16 nibble-cells as the 16-bit word whose
   little-endian bytes are (c0<<4|c1), (c2<<4|c3) */
#define VPACK16(g, r) ((uint16_t)((((g)[4 * (r)] & 0xF) << 4) | ((g)[4 * (r) + 1] & 0xF) | \
                       (((g)[4 * (r) + 2] & 0xF) << 12) | (((g)[4 * (r) + 3] & 0xF) << 8)))
/* nibble-cell c (0..3) of a 16-bit row word */
#define VCELL16(w, c) ((uint8_t)(((c) == 0) ? (((w) >> 4) & 0xF) : ((c) == 1) ? ((w) & 0xF) : \
                       ((c) == 2) ? (((w) >> 12) & 0xF) : (((w) >> 8) & 0xF)))
/* byte b of a block -> cells 2b, 2b+1 */
#define VHI(b) ((uint8_t)(((b) >> 4) & 0xF))
#define VLO(b) ((uint8_t)((b) & 0xF))

#define VU8(p) ((const uint8_t *)(p))

/* ghost state shared by the contracts (havocked at entry of an enforced
   function; every contract initialises what it uses) */
static uint8_t VG_S[16];    /* ghost cipher state (cells) */
static uint8_t VG_T[16];    /* ghost tweakey / tweak state (cells) */
static uint8_t VG_RK[8];    /* ghost round key cells */
static uint8_t VG_SNAP[8];  /* ghost snapshot at witness round */
static uint8_t VG_RC;       /* ghost round-constant LFSR */
static uint8_t VG_RCJ;      /* ghost rc at witness round */
static unsigned VG_J;       /* witness round index (arbitrary) */

/* 128-bit ghost arithmetic for big-endian counters */
typedef unsigned __int128 vu128;
#define VBE128(p) \
    (((vu128)(p)[0] << 120) | ((vu128)(p)[1] << 112) | ((vu128)(p)[2] << 104) | ((vu128)(p)[3] << 96) | \
     ((vu128)(p)[4] << 88) | ((vu128)(p)[5] << 80) | ((vu128)(p)[6] << 72) | ((vu128)(p)[7] << 64) | \
     ((vu128)(p)[8] << 56) | ((vu128)(p)[9] << 48) | ((vu128)(p)[10] << 40) | ((vu128)(p)[11] << 32) | \
     ((vu128)(p)[12] << 24) | ((vu128)(p)[13] << 16) | ((vu128)(p)[14] << 8) | (vu128)(p)[15])
#define VBE64(p) \
    (((vu128)(p)[0] << 56) | ((vu128)(p)[1] << 48) | ((vu128)(p)[2] << 40) | ((vu128)(p)[3] << 32) | \
     ((vu128)(p)[4] << 24) | ((vu128)(p)[5] << 16) | ((vu128)(p)[6] << 8) | (vu128)(p)[7])

#define VCANARY() __CPROVER_assert(0, "canary-reachable")

#endif
