/* Contracts for class Mantis8 of the Arduino port (arduino/libraries/Skinny/Mantis8.cpp), checked on the C
 * translation unit extracted on every run.  The object is the file-scope struct `st` (k0, k0prime, k1, tweak as
 * pairs of 32-bit words; word w of a pair holds rows 2w and 2w+1 of the library's MantisCells_t).  Every
 * postcondition is the specification expression that contracts/mantis-cipher.h proves for the C library
 * (MANTIS-8: the class has no round parameter). */
#ifndef CONTRACTS_ARDUINO_MANTIS8_H
#define CONTRACTS_ARDUINO_MANTIS8_H
/* the library's specification macros and ghost state (no code); the library's own cell type is renamed because the
   extracted translation unit brings the port's type of the same name */
#define MantisCells_t VerifLibMantisCells_t
#include "mantis-cipher.h"
#undef MantisCells_t
#include "arduino-common.h"

#define AM_ROW(a, k) ((uint16_t)((a)[(k) >> 1] >> (((k) & 1) * 16)))
#define AM_LOAD_CELLS(g, a) \
    (g)[0] = VCELL16(AM_ROW(a, 0), 0); (g)[1] = VCELL16(AM_ROW(a, 0), 1); (g)[2] = VCELL16(AM_ROW(a, 0), 2); (g)[3] = VCELL16(AM_ROW(a, 0), 3); \
    (g)[4] = VCELL16(AM_ROW(a, 1), 0); (g)[5] = VCELL16(AM_ROW(a, 1), 1); (g)[6] = VCELL16(AM_ROW(a, 1), 2); (g)[7] = VCELL16(AM_ROW(a, 1), 3); \
    (g)[8] = VCELL16(AM_ROW(a, 2), 0); (g)[9] = VCELL16(AM_ROW(a, 2), 1); (g)[10] = VCELL16(AM_ROW(a, 2), 2); (g)[11] = VCELL16(AM_ROW(a, 2), 3); \
    (g)[12] = VCELL16(AM_ROW(a, 3), 0); (g)[13] = VCELL16(AM_ROW(a, 3), 1); (g)[14] = VCELL16(AM_ROW(a, 3), 2); (g)[15] = VCELL16(AM_ROW(a, 3), 3);
#define AM_LE32(p, o) ((uint32_t)VU8(p)[(o)] | ((uint32_t)VU8(p)[(o) + 1] << 8) | ((uint32_t)VU8(p)[(o) + 2] << 16) | ((uint32_t)VU8(p)[(o) + 3] << 24))
#define AM_ARR_IS_BYTES(a, p, off) ((a)[0] == AM_LE32(p, off) && (a)[1] == AM_LE32(p, (off) + 4))
#define AM_ROT32(p, o) ((uint32_t)VM_ROTB(p, o) | ((uint32_t)VM_ROTB(p, (o) + 1) << 8) | ((uint32_t)VM_ROTB(p, (o) + 2) << 16) | ((uint32_t)VM_ROTB(p, (o) + 3) << 24))
#define AM_ARR_IS_ROT(a, p) ((a)[0] == AM_ROT32(p, 0) && (a)[1] == AM_ROT32(p, 4))
#define AM_ALPHA32(w) ((uint32_t)VPACK16(SPEC_MALPHA, 2 * (w)) | ((uint32_t)VPACK16(SPEC_MALPHA, 2 * (w) + 1) << 16))
#define AM_ST __CPROVER_object_whole(&st)

/* ---- encryptBlock: ghost lock-step with the MANTIS-8 steps of the paper ---- */
#define VC_Mantis8__encryptBlock \
    __CPROVER_requires(__CPROVER_is_fresh(input, 8)) \
    __CPROVER_requires(__CPROVER_is_fresh(output, 8) || __CPROVER_pointer_equals(output, (void *)input)) \
    __CPROVER_assigns(__CPROVER_object_upto(output, 8), VM_GHOSTS) \
    __CPROVER_ensures(VM_OUT_IS_GHOST(output, VG_S))
#define VE_Mantis8__encryptBlock \
    VM_LOAD_BLOCK(VG_S, input) AM_LOAD_CELLS(VG_T, st.tweak) \
    AM_LOAD_CELLS(VGM_K0, st.k0) AM_LOAD_CELLS(VGM_K0P, st.k0prime) AM_LOAD_CELLS(VGM_K1, st.k1) \
    VM_XOR_ALPHA(VGM_K1A, VGM_K1) \
    specm_xor(VG_S, VGM_K0); specm_xor(VG_S, VGM_K1); specm_xor(VG_S, VG_T);
#define VL_Mantis8__encryptBlock_1 \
    __CPROVER_assigns(index, r, __CPROVER_object_whole(&state), __CPROVER_object_whole(&tweak), \
                      __CPROVER_object_whole(VG_S), __CPROVER_object_whole(VG_T)) \
    __CPROVER_loop_invariant(index <= 8) \
    __CPROVER_loop_invariant((const uint8_t *)r == (const uint8_t *)rc + 8 * (8 - index)) \
    __CPROVER_loop_invariant(VM_CELLS_OK(VG_S) && VM_CELLS_OK(VG_T)) \
    __CPROVER_loop_invariant(VM_IS_GHOST(state, VG_S) && VM_IS_GHOST(tweak, VG_T)) \
    __CPROVER_decreases(index)
#define VT_Mantis8__encryptBlock_1 \
    { specm_h(VG_T); specm_sub(VG_S); specm_xor(VG_S, SPEC_MRC[8 - index]); \
      specm_xor(VG_S, VGM_K1); specm_xor(VG_S, VG_T); specm_perm(VG_S); specm_mix(VG_S); }
#define VP_Mantis8__encryptBlock_2 VM_MIDDLE
#define VL_Mantis8__encryptBlock_2 \
    __CPROVER_assigns(index, r, __CPROVER_object_whole(&state), __CPROVER_object_whole(&tweak), \
                      __CPROVER_object_whole(VG_S), __CPROVER_object_whole(VG_T)) \
    __CPROVER_loop_invariant(index <= 8) \
    __CPROVER_loop_invariant((const uint8_t *)r == (const uint8_t *)rc + 8 * index) \
    __CPROVER_loop_invariant(VM_CELLS_OK(VG_S) && VM_CELLS_OK(VG_T)) \
    __CPROVER_loop_invariant(VM_IS_GHOST(state, VG_S) && VM_IS_GHOST(tweak, VG_T) && VM_IS_GHOST(k1, VGM_K1A)) \
    __CPROVER_decreases(index)
#define VT_Mantis8__encryptBlock_2 VM_BWD_STEP
#define VX_Mantis8__encryptBlock_2 VM_FINAL

/* decryptBlock is the same core (the schedule is swapped by swapModes) */
#define VC_Mantis8__decryptBlock VC_Mantis8__encryptBlock
#define VE_Mantis8__decryptBlock

/* ---- setKey: 16 bytes only; encryption schedule (k0, k0', k1) of the paper, zero tweak:
 *      the library's mantis_set_key(.., 16, 8, MANTIS_ENCRYPT) ---- */
#define VC_Mantis8__setKey \
    __CPROVER_requires(len != 16 || __CPROVER_is_fresh(key, 16)) \
    __CPROVER_assigns(len == 16: AM_ST) \
    __CPROVER_ensures(__CPROVER_return_value == (len == 16)) \
    __CPROVER_ensures(__CPROVER_return_value ==> (st.tweak[0] == 0 && st.tweak[1] == 0)) \
    __CPROVER_ensures(__CPROVER_return_value ==> (AM_ARR_IS_BYTES(st.k0, key, 0) && AM_ARR_IS_BYTES(st.k1, key, 8) && AM_ARR_IS_ROT(st.k0prime, key)))

/* ---- setTweak: 8 bytes only; null = zero tweak; keys untouched (frame) ---- */
#define VC_Mantis8__setTweak \
    __CPROVER_requires(tweak == NULL || __CPROVER_is_fresh(tweak, 8)) \
    __CPROVER_assigns(len == 8: __CPROVER_object_upto((void *)st.tweak, 8)) \
    __CPROVER_ensures(__CPROVER_return_value == (len == 8)) \
    __CPROVER_ensures((__CPROVER_return_value && tweak != NULL) ==> AM_ARR_IS_BYTES(st.tweak, tweak, 0)) \
    __CPROVER_ensures((__CPROVER_return_value && tweak == NULL) ==> (st.tweak[0] == 0 && st.tweak[1] == 0))

/* ---- swapModes: k0 <-> k0', k1 ^= alpha; tweak untouched (frame) ---- */
static uint32_t VGAM_OK0[2], VGAM_OK0P[2], VGAM_OK1[2];
#define VC_Mantis8__swapModes \
    __CPROVER_assigns(__CPROVER_object_upto((void *)st.k0, 24), __CPROVER_object_whole(VGAM_OK0), __CPROVER_object_whole(VGAM_OK0P), __CPROVER_object_whole(VGAM_OK1)) \
    __CPROVER_ensures(st.k0[0] == VGAM_OK0P[0] && st.k0[1] == VGAM_OK0P[1] && st.k0prime[0] == VGAM_OK0[0] && st.k0prime[1] == VGAM_OK0[1]) \
    __CPROVER_ensures(st.k1[0] == (VGAM_OK1[0] ^ AM_ALPHA32(0)) && st.k1[1] == (VGAM_OK1[1] ^ AM_ALPHA32(1)))
#define VE_Mantis8__swapModes \
    VGAM_OK0[0] = st.k0[0]; VGAM_OK0[1] = st.k0[1]; VGAM_OK0P[0] = st.k0prime[0]; VGAM_OK0P[1] = st.k0prime[1]; VGAM_OK1[0] = st.k1[0]; VGAM_OK1[1] = st.k1[1];

/* ---- clear ---- */
#define VC_Mantis8__clear \
    __CPROVER_requires(VG_W < sizeof(st)) \
    __CPROVER_assigns(AM_ST) \
    __CPROVER_ensures(((const uint8_t *)&st)[VG_W] == 0)

#endif
