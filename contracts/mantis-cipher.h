/* Contracts for src/mantis-cipher.c.  Cells are nibbles, first nibble of the block =
 * high nibble of byte 0 = cell 0; a MantisCells_t row word packs 4 cells as VPACK16.
 * The ghost program is the MANTIS-r definition of the paper (spec_gen.h step functions:
 * Midori Sb0, round constants from pi, h / h^-1 on the tweak, P / P^-1, M, alpha). */
#ifndef CONTRACTS_MANTIS_CIPHER_H
#define CONTRACTS_MANTIS_CIPHER_H
#include "verif_common.h"
#include <mantis-cipher.h>   /* public header (angle form: the quoted form would find this file): MantisCells_t, MantisKey_t */

static uint8_t VGM_K0[16], VGM_K0P[16], VGM_K1[16], VGM_K1A[16];
/* ghost call log of mantis_set_key (used by the wrappers that delegate to it) */
static const void *VGM_SK_KS, *VGM_SK_KEY; static unsigned VGM_SK_SIZE, VGM_SK_ROUNDS, VGM_SK_N; static int VGM_SK_MODE;
#define VGM_SK_LOG VGM_SK_KS, VGM_SK_KEY, VGM_SK_SIZE, VGM_SK_ROUNDS, VGM_SK_N, VGM_SK_MODE

#define VM_LOAD_BLOCK(g, p) (g)[0] = VHI(VU8(p)[0]); (g)[1] = VLO(VU8(p)[0]); (g)[2] = VHI(VU8(p)[1]); (g)[3] = VLO(VU8(p)[1]); (g)[4] = VHI(VU8(p)[2]); (g)[5] = VLO(VU8(p)[2]); (g)[6] = VHI(VU8(p)[3]); (g)[7] = VLO(VU8(p)[3]); (g)[8] = VHI(VU8(p)[4]); (g)[9] = VLO(VU8(p)[4]); (g)[10] = VHI(VU8(p)[5]); (g)[11] = VLO(VU8(p)[5]); (g)[12] = VHI(VU8(p)[6]); (g)[13] = VLO(VU8(p)[6]); (g)[14] = VHI(VU8(p)[7]); (g)[15] = VLO(VU8(p)[7]);
#define VM_LOAD_CELLS(g, mc) (g)[0] = VCELL16((mc).row[0], 0); (g)[1] = VCELL16((mc).row[0], 1); (g)[2] = VCELL16((mc).row[0], 2); (g)[3] = VCELL16((mc).row[0], 3); (g)[4] = VCELL16((mc).row[1], 0); (g)[5] = VCELL16((mc).row[1], 1); (g)[6] = VCELL16((mc).row[1], 2); (g)[7] = VCELL16((mc).row[1], 3); (g)[8] = VCELL16((mc).row[2], 0); (g)[9] = VCELL16((mc).row[2], 1); (g)[10] = VCELL16((mc).row[2], 2); (g)[11] = VCELL16((mc).row[2], 3); (g)[12] = VCELL16((mc).row[3], 0); (g)[13] = VCELL16((mc).row[3], 1); (g)[14] = VCELL16((mc).row[3], 2); (g)[15] = VCELL16((mc).row[3], 3);
#define VM_IS_GHOST(mc, g) ((mc).row[0] == VPACK16(g, 0) && (mc).row[1] == VPACK16(g, 1) && (mc).row[2] == VPACK16(g, 2) && (mc).row[3] == VPACK16(g, 3))
#define VM_CELLS_OK(g) ((g)[0] <= 0xF && (g)[1] <= 0xF && (g)[2] <= 0xF && (g)[3] <= 0xF && (g)[4] <= 0xF && (g)[5] <= 0xF && (g)[6] <= 0xF && (g)[7] <= 0xF && (g)[8] <= 0xF && (g)[9] <= 0xF && (g)[10] <= 0xF && (g)[11] <= 0xF && (g)[12] <= 0xF && (g)[13] <= 0xF && (g)[14] <= 0xF && (g)[15] <= 0xF)
#define VM_OUT_IS_GHOST(out, g) (VU8(out)[0] == (uint8_t)(((g)[2 * 0] << 4) | ((g)[2 * 0 + 1] & 0xF)) && VU8(out)[1] == (uint8_t)(((g)[2 * 1] << 4) | ((g)[2 * 1 + 1] & 0xF)) && VU8(out)[2] == (uint8_t)(((g)[2 * 2] << 4) | ((g)[2 * 2 + 1] & 0xF)) && VU8(out)[3] == (uint8_t)(((g)[2 * 3] << 4) | ((g)[2 * 3 + 1] & 0xF)) && VU8(out)[4] == (uint8_t)(((g)[2 * 4] << 4) | ((g)[2 * 4 + 1] & 0xF)) && VU8(out)[5] == (uint8_t)(((g)[2 * 5] << 4) | ((g)[2 * 5 + 1] & 0xF)) && VU8(out)[6] == (uint8_t)(((g)[2 * 6] << 4) | ((g)[2 * 6 + 1] & 0xF)) && VU8(out)[7] == (uint8_t)(((g)[2 * 7] << 4) | ((g)[2 * 7 + 1] & 0xF)))
#define VM_XOR_ALPHA(d, s) (d)[0] = (s)[0] ^ SPEC_MALPHA[0]; (d)[1] = (s)[1] ^ SPEC_MALPHA[1]; (d)[2] = (s)[2] ^ SPEC_MALPHA[2]; (d)[3] = (s)[3] ^ SPEC_MALPHA[3]; (d)[4] = (s)[4] ^ SPEC_MALPHA[4]; (d)[5] = (s)[5] ^ SPEC_MALPHA[5]; (d)[6] = (s)[6] ^ SPEC_MALPHA[6]; (d)[7] = (s)[7] ^ SPEC_MALPHA[7]; (d)[8] = (s)[8] ^ SPEC_MALPHA[8]; (d)[9] = (s)[9] ^ SPEC_MALPHA[9]; (d)[10] = (s)[10] ^ SPEC_MALPHA[10]; (d)[11] = (s)[11] ^ SPEC_MALPHA[11]; (d)[12] = (s)[12] ^ SPEC_MALPHA[12]; (d)[13] = (s)[13] ^ SPEC_MALPHA[13]; (d)[14] = (s)[14] ^ SPEC_MALPHA[14]; (d)[15] = (s)[15] ^ SPEC_MALPHA[15];
#define VM_BLOCK_IS_BYTES(mc, p, off) ((mc).row[0] == (uint16_t)(VU8(p)[(off) + 2 * 0] | (VU8(p)[(off) + 2 * 0 + 1] << 8)) && (mc).row[1] == (uint16_t)(VU8(p)[(off) + 2 * 1] | (VU8(p)[(off) + 2 * 1 + 1] << 8)) && (mc).row[2] == (uint16_t)(VU8(p)[(off) + 2 * 2] | (VU8(p)[(off) + 2 * 2 + 1] << 8)) && (mc).row[3] == (uint16_t)(VU8(p)[(off) + 2 * 3] | (VU8(p)[(off) + 2 * 3 + 1] << 8)))
#define VM_BLOCK_IS_BYTES_XA(mc, p, off) ((mc).row[0] == (uint16_t)((VU8(p)[(off) + 2 * 0] | (VU8(p)[(off) + 2 * 0 + 1] << 8)) ^ VPACK16(SPEC_MALPHA, 0)) && (mc).row[1] == (uint16_t)((VU8(p)[(off) + 2 * 1] | (VU8(p)[(off) + 2 * 1 + 1] << 8)) ^ VPACK16(SPEC_MALPHA, 1)) && (mc).row[2] == (uint16_t)((VU8(p)[(off) + 2 * 2] | (VU8(p)[(off) + 2 * 2 + 1] << 8)) ^ VPACK16(SPEC_MALPHA, 2)) && (mc).row[3] == (uint16_t)((VU8(p)[(off) + 2 * 3] | (VU8(p)[(off) + 2 * 3 + 1] << 8)) ^ VPACK16(SPEC_MALPHA, 3)))
#define VM_BLOCK_IS_ZERO(mc) ((mc).row[0] == 0 && (mc).row[1] == 0 && (mc).row[2] == 0 && (mc).row[3] == 0)

/* k0' = (k0 >>> 1) ^ (k0 >> 63) on the 64-bit big-endian value of key bytes 0..7:
   byte i of k0' = (key[i-1] << 7 | key[i] >> 1), byte 0 takes the carry from byte 7,
   and the last byte additionally gets bit 63 of k0 */
#define VM_ROTB(p, i) ((uint8_t)(((uint8_t)(VU8(p)[((i) + 7) & 7] << 7) | (VU8(p)[(i)] >> 1)) ^ (((i) == 7) ? (VU8(p)[0] >> 7) : 0)))

#define VM_BLOCK_IS_ROT(mc, p) ((mc).row[0] == (uint16_t)(VM_ROTB(p, 2 * 0) | (VM_ROTB(p, 2 * 0 + 1) << 8)) && (mc).row[1] == (uint16_t)(VM_ROTB(p, 2 * 1) | (VM_ROTB(p, 2 * 1 + 1) << 8)) && (mc).row[2] == (uint16_t)(VM_ROTB(p, 2 * 2) | (VM_ROTB(p, 2 * 2 + 1) << 8)) && (mc).row[3] == (uint16_t)(VM_ROTB(p, 2 * 3) | (VM_ROTB(p, 2 * 3 + 1) << 8)))

/* ---- mantis_ecb_crypt / mantis_ecb_crypt_tweaked ---- */
#define VM_CRYPT_REQUIRES \
    __CPROVER_requires(__CPROVER_is_fresh(ks, sizeof(MantisKey_t))) \
    __CPROVER_requires(ks->rounds <= MANTIS_MAX_ROUNDS) \
    __CPROVER_requires(__CPROVER_is_fresh(input, 8)) \
    __CPROVER_requires(__CPROVER_is_fresh(output, 8) || __CPROVER_pointer_equals(output, (void *)input))
#define VM_GHOSTS \
    __CPROVER_object_whole(VG_S), __CPROVER_object_whole(VG_T), __CPROVER_object_whole(VGM_K0), \
    __CPROVER_object_whole(VGM_K0P), __CPROVER_object_whole(VGM_K1), __CPROVER_object_whole(VGM_K1A)
#define VM_CRYPT_ENTRY(TWEAK_LOAD) \
    VM_LOAD_BLOCK(VG_S, input) TWEAK_LOAD \
    VM_LOAD_CELLS(VGM_K0, ks->k0) VM_LOAD_CELLS(VGM_K0P, ks->k0prime) VM_LOAD_CELLS(VGM_K1, ks->k1) \
    VM_XOR_ALPHA(VGM_K1A, VGM_K1) \
    specm_xor(VG_S, VGM_K0); specm_xor(VG_S, VGM_K1); specm_xor(VG_S, VG_T);
#define VM_FWD_LOOP(TW) \
    __CPROVER_assigns(index, r, __CPROVER_object_whole(&state), __CPROVER_object_whole(&TW), \
                      __CPROVER_object_whole(VG_S), __CPROVER_object_whole(VG_T)) \
    __CPROVER_loop_invariant(index <= ks->rounds) \
    __CPROVER_loop_invariant((const uint8_t *)r == (const uint8_t *)rc + 8 * (ks->rounds - index)) \
    __CPROVER_loop_invariant(VM_CELLS_OK(VG_S) && VM_CELLS_OK(VG_T)) \
    __CPROVER_loop_invariant(VM_IS_GHOST(state, VG_S) && VM_IS_GHOST(TW, VG_T)) \
    __CPROVER_decreases(index)
#define VM_FWD_STEP \
    { specm_h(VG_T); specm_sub(VG_S); specm_xor(VG_S, SPEC_MRC[ks->rounds - index]); \
      specm_xor(VG_S, VGM_K1); specm_xor(VG_S, VG_T); specm_perm(VG_S); specm_mix(VG_S); }
#define VM_MIDDLE { specm_sub(VG_S); specm_mix(VG_S); specm_sub(VG_S); }
#define VM_BWD_LOOP(TW) \
    __CPROVER_assigns(index, r, __CPROVER_object_whole(&state), __CPROVER_object_whole(&TW), \
                      __CPROVER_object_whole(VG_S), __CPROVER_object_whole(VG_T)) \
    __CPROVER_loop_invariant(index <= ks->rounds) \
    __CPROVER_loop_invariant((const uint8_t *)r == (const uint8_t *)rc + 8 * index) \
    __CPROVER_loop_invariant(VM_CELLS_OK(VG_S) && VM_CELLS_OK(VG_T)) \
    __CPROVER_loop_invariant(VM_IS_GHOST(state, VG_S) && VM_IS_GHOST(TW, VG_T) && VM_IS_GHOST(k1, VGM_K1A)) \
    __CPROVER_decreases(index)
#define VM_BWD_STEP \
    { specm_mix(VG_S); specm_perm_inv(VG_S); specm_xor(VG_S, VGM_K1A); specm_xor(VG_S, VG_T); \
      specm_xor(VG_S, SPEC_MRC[index - 1]); specm_sub(VG_S); specm_h_inv(VG_T); }
#define VM_FINAL { specm_xor(VG_S, VGM_K0P); specm_xor(VG_S, VGM_K1A); specm_xor(VG_S, VG_T); }

#define VC_mantis_ecb_crypt \
    VM_CRYPT_REQUIRES \
    __CPROVER_assigns(__CPROVER_object_upto(output, 8), VM_GHOSTS) \
    __CPROVER_ensures(VM_OUT_IS_GHOST(output, VG_S))
#define VE_mantis_ecb_crypt VM_CRYPT_ENTRY(VM_LOAD_CELLS(VG_T, ks->tweak))
#define VL_mantis_ecb_crypt_1 VM_FWD_LOOP(tweak)
#define VT_mantis_ecb_crypt_1 VM_FWD_STEP
#define VP_mantis_ecb_crypt_2 VM_MIDDLE
#define VL_mantis_ecb_crypt_2 VM_BWD_LOOP(tweak)
#define VT_mantis_ecb_crypt_2 VM_BWD_STEP
#define VX_mantis_ecb_crypt_2 VM_FINAL

#define VC_mantis_ecb_crypt_tweaked \
    VM_CRYPT_REQUIRES \
    __CPROVER_requires(__CPROVER_is_fresh(tweak, 8)) \
    __CPROVER_assigns(__CPROVER_object_upto(output, 8), VM_GHOSTS) \
    __CPROVER_ensures(VM_OUT_IS_GHOST(output, VG_S))
#define VE_mantis_ecb_crypt_tweaked VM_CRYPT_ENTRY(VM_LOAD_BLOCK(VG_T, tweak))
#define VL_mantis_ecb_crypt_tweaked_1 VM_FWD_LOOP(tk)
#define VT_mantis_ecb_crypt_tweaked_1 VM_FWD_STEP
#define VP_mantis_ecb_crypt_tweaked_2 VM_MIDDLE
#define VL_mantis_ecb_crypt_tweaked_2 VM_BWD_LOOP(tk)
#define VT_mantis_ecb_crypt_tweaked_2 VM_BWD_STEP
#define VX_mantis_ecb_crypt_tweaked_2 VM_FINAL

/* ---- mantis_set_key: 16-byte keys and 5..8 rounds only; encryption schedule =
 *      (k0, k0', k1) of the paper, decryption schedule = (k0', k0, k1 ^ alpha); zero tweak ---- */
#define VM_SETKEY_OK (ks != NULL && key != NULL && size == 16 && rounds >= 5 && rounds <= 8)
#define VC_mantis_set_key \
    __CPROVER_requires(ks == NULL || __CPROVER_is_fresh(ks, sizeof(MantisKey_t))) \
    __CPROVER_requires(key == NULL || __CPROVER_is_fresh(key, (size <= 32) ? size : 32)) \
    __CPROVER_assigns(VM_SETKEY_OK: __CPROVER_object_upto((void *)ks, sizeof(MantisKey_t))) \
    __CPROVER_assigns(VGM_SK_LOG) \
    __CPROVER_ensures(VGM_SK_N == __CPROVER_old(VGM_SK_N) + 1 && VGM_SK_KS == (const void *)ks && VGM_SK_KEY == key && \
                      VGM_SK_SIZE == size && VGM_SK_ROUNDS == rounds && VGM_SK_MODE == mode) \
    __CPROVER_ensures(__CPROVER_return_value == (VM_SETKEY_OK ? 1 : 0)) \
    __CPROVER_ensures(__CPROVER_return_value == 1 ==> (ks->rounds == rounds && VM_BLOCK_IS_ZERO(ks->tweak))) \
    __CPROVER_ensures((__CPROVER_return_value == 1 && mode == MANTIS_ENCRYPT) ==> \
        (VM_BLOCK_IS_BYTES(ks->k0, key, 0) && VM_BLOCK_IS_BYTES(ks->k1, key, 8) && VM_BLOCK_IS_ROT(ks->k0prime, key))) \
    __CPROVER_ensures((__CPROVER_return_value == 1 && mode != MANTIS_ENCRYPT) ==> \
        (VM_BLOCK_IS_BYTES(ks->k0prime, key, 0) && VM_BLOCK_IS_BYTES_XA(ks->k1, key, 8) && VM_BLOCK_IS_ROT(ks->k0, key)))

/* ---- mantis_set_tweak: 8 bytes only; NULL = zero tweak; nothing else changes ---- */
#define VM_SETTWEAK_OK (ks != NULL && size == 8)
#define VE_mantis_set_key \
    VGM_SK_N = VGM_SK_N + 1; VGM_SK_KS = ks; VGM_SK_KEY = key; VGM_SK_SIZE = size; VGM_SK_ROUNDS = rounds; VGM_SK_MODE = mode;
#define VC_mantis_set_tweak \
    __CPROVER_requires(ks == NULL || __CPROVER_is_fresh(ks, sizeof(MantisKey_t))) \
    __CPROVER_requires(tweak == NULL || __CPROVER_is_fresh(tweak, 8)) \
    __CPROVER_assigns(VM_SETTWEAK_OK: __CPROVER_object_upto((void *)&ks->tweak, sizeof(ks->tweak))) \
    __CPROVER_ensures(__CPROVER_return_value == (VM_SETTWEAK_OK ? 1 : 0)) \
    __CPROVER_ensures((__CPROVER_return_value == 1 && tweak != NULL) ==> VM_BLOCK_IS_BYTES(ks->tweak, tweak, 0)) \
    __CPROVER_ensures((__CPROVER_return_value == 1 && tweak == NULL) ==> VM_BLOCK_IS_ZERO(ks->tweak))

/* ---- mantis_swap_modes: k0 <-> k0', k1 ^= alpha; tweak and rounds untouched (frame) ---- */
static MantisCells_t VGM_OK0, VGM_OK0P, VGM_OK1;
#define VC_mantis_swap_modes \
    __CPROVER_requires(__CPROVER_is_fresh(ks, sizeof(MantisKey_t))) \
    __CPROVER_assigns(__CPROVER_object_upto((void *)&ks->k0, sizeof(ks->k0)), __CPROVER_object_upto((void *)&ks->k0prime, sizeof(ks->k0prime)), __CPROVER_object_upto((void *)&ks->k1, sizeof(ks->k1)), \
                      __CPROVER_object_whole(&VGM_OK0), __CPROVER_object_whole(&VGM_OK0P), __CPROVER_object_whole(&VGM_OK1)) \
    __CPROVER_ensures(ks->k0.llrow == VGM_OK0P.llrow && ks->k0prime.llrow == VGM_OK0.llrow) \
    __CPROVER_ensures(ks->k1.row[0] == (uint16_t)(VGM_OK1.row[0] ^ VPACK16(SPEC_MALPHA, 0)) && \
                      ks->k1.row[1] == (uint16_t)(VGM_OK1.row[1] ^ VPACK16(SPEC_MALPHA, 1)) && \
                      ks->k1.row[2] == (uint16_t)(VGM_OK1.row[2] ^ VPACK16(SPEC_MALPHA, 2)) && \
                      ks->k1.row[3] == (uint16_t)(VGM_OK1.row[3] ^ VPACK16(SPEC_MALPHA, 3)))
#define VE_mantis_swap_modes VGM_OK0 = ks->k0; VGM_OK0P = ks->k0prime; VGM_OK1 = ks->k1;

#endif
