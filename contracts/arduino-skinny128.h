/* Contracts for the Skinny-128 classes of the Arduino port (arduino/libraries/Skinny/Skinny128.cpp),
 * checked on the C translation units that engine/arduino_extract.py produces on every run.
 *
 * The object is the set of file-scope variables  s, r, sched[], (t[])  of the extracted leaf class.
 * Every postcondition is the SAME specification expression (spec128_round, V128_TK1_EXP*, the TK2/TK3
 * ghost programs, V128_ROUNDS) that contracts/skinny128-cipher.h proves for the C library, stated over the
 * Arduino layout  schedule word pair (s[2j], s[2j+1]) == C library schedule[j].row[0..1].  Two
 * implementations that both meet it compute the same cipher.  */
#ifndef CONTRACTS_ARDUINO_SKINNY128_H
#define CONTRACTS_ARDUINO_SKINNY128_H
#include "skinny128-cipher.h"   /* the library's specification macros and ghost state (no code) */
#include "arduino-common.h"

/* object invariant established by the constructor chain (extracted initialisers) */
#define A128_INV (__CPROVER_pointer_equals(s, sched) && r == VERIF_ARD_ROUNDS && VERIF_ARD_ROUNDS <= 56 && sizeof(sched) == 8u * VERIF_ARD_ROUNDS)
#define A128_INV_POST (s == sched && r == VERIF_ARD_ROUNDS)
#define A128_SCHED __CPROVER_object_whole(sched)
#define A128_SCHED_J_IS(a, b) (s[2 * VG_J] == (a) && s[2 * VG_J + 1] == (b))
#define A128_SAVE_OLD VG_OLD0 = s[2 * VG_J]; VG_OLD1 = s[2 * VG_J + 1];
#define A128_LOAD_RK(j) \
    VG_RK[0] = VBYTE(s[2 * (j)], 0); VG_RK[1] = VBYTE(s[2 * (j)], 1); VG_RK[2] = VBYTE(s[2 * (j)], 2); VG_RK[3] = VBYTE(s[2 * (j)], 3); \
    VG_RK[4] = VBYTE(s[2 * (j) + 1], 0); VG_RK[5] = VBYTE(s[2 * (j) + 1], 1); VG_RK[6] = VBYTE(s[2 * (j) + 1], 2); VG_RK[7] = VBYTE(s[2 * (j) + 1], 3);
#define A128_ARR_IS_GHOST(a, g) ((a)[0] == VPACK32(g, 0) && (a)[1] == VPACK32(g, 1) && (a)[2] == VPACK32(g, 2) && (a)[3] == VPACK32(g, 3))
#define A128_ARR_IS_KEYPERM(a, key, j) \
    ((a)[0] == V128_TK1ROW(key, j, 0) && (a)[1] == V128_TK1ROW(key, j, 1) && (a)[2] == V128_TK1ROW(key, j, 2) && (a)[3] == V128_TK1ROW(key, j, 3))

/* checked re-normalisation of the moving schedule cursor at the top of a loop body (symex cannot resolve a havocked moving pointer) */
#define A128_PTR_NORM __CPROVER_assert(schedule == s + 2 * (r - index), "ptr-norm: schedule cursor"); schedule = s + 2 * (r - index);
/* ---- encryptBlock / decryptBlock: ghost lock-step with the specification rounds ---- */
#define A128_BLOCK_CONTRACT \
    __CPROVER_requires(A128_INV) \
    __CPROVER_requires(__CPROVER_is_fresh(input, 16)) \
    __CPROVER_requires(__CPROVER_is_fresh(output, 16) || __CPROVER_pointer_equals(output, (void *)input)) \
    __CPROVER_assigns(__CPROVER_object_upto(output, 16)) \
    __CPROVER_assigns(__CPROVER_object_whole(VG_S), __CPROVER_object_whole(VG_RK)) \
    __CPROVER_ensures(V128_OUT_IS_GHOST(output))
#define VC_Skinny128__encryptBlock A128_BLOCK_CONTRACT
#define VE_Skinny128__encryptBlock V128_LOAD_STATE(input)
#define VL_Skinny128__encryptBlock_1 \
    __CPROVER_assigns(index, schedule, temp, __CPROVER_object_whole(state), __CPROVER_object_whole(VG_S), __CPROVER_object_whole(VG_RK)) \
    __CPROVER_loop_invariant(index <= r) \
    __CPROVER_loop_invariant(schedule == s + 2 * (r - index)) \
    __CPROVER_loop_invariant(A128_ARR_IS_GHOST(state, VG_S)) \
    __CPROVER_decreases(index)
#define VT_Skinny128__encryptBlock_1 { A128_LOAD_RK(r - index) spec128_round(VG_S, VG_RK); }

#define VC_Skinny128__decryptBlock A128_BLOCK_CONTRACT
#define VE_Skinny128__decryptBlock V128_LOAD_STATE(input)
#define VL_Skinny128__decryptBlock_1 \
    __CPROVER_assigns(index, schedule, temp, __CPROVER_object_whole(state), __CPROVER_object_whole(VG_S), __CPROVER_object_whole(VG_RK)) \
    __CPROVER_loop_invariant(index <= r) \
    __CPROVER_loop_invariant(schedule == s + 2 * index - 2) \
    __CPROVER_loop_invariant(A128_ARR_IS_GHOST(state, VG_S)) \
    __CPROVER_decreases(index)
#define VT_Skinny128__decryptBlock_1 { A128_LOAD_RK(index - 1) spec128_inv_round(VG_S, VG_RK); }

/* ---- setTK1(key, tweaked): closed form, as skinny128_set_tk1 ---- */
#define VC_Skinny128__setTK1 \
    __CPROVER_requires(A128_INV && VG_J < VERIF_ARD_ROUNDS) \
    __CPROVER_requires(V128_TK1ARG_VALID(key)) \
    __CPROVER_assigns(A128_SCHED, VG_OLD0, VG_OLD1, VG_TK1_KEY, VG_TK1_TWEAKED, VG_TK1_N) \
    __CPROVER_ensures(A128_SCHED_J_IS(V128_TK1_EXP0(key, VG_J, tweaked), V128_TK1_EXP1(key, VG_J))) \
    __CPROVER_ensures(VG_TK1_KEY == key && VG_TK1_TWEAKED == (int)tweaked && VG_TK1_N == __CPROVER_old(VG_TK1_N) + 1)
#define VE_Skinny128__setTK1 A128_SAVE_OLD VG_TK1_KEY = key; VG_TK1_TWEAKED = tweaked; VG_TK1_N = VG_TK1_N + 1;
#define VL_Skinny128__setTK1_1 \
    __CPROVER_assigns(index, schedule, rc, __CPROVER_object_whole(TK1), A128_SCHED) \
    __CPROVER_loop_invariant(index <= r) \
    __CPROVER_loop_invariant(schedule == s + 2 * (r - index)) \
    __CPROVER_loop_invariant(A128_ARR_IS_KEYPERM(TK1, key, r - index)) \
    __CPROVER_loop_invariant(rc == (index == r ? 0 : SPEC_RC[r - index - 1])) \
    __CPROVER_loop_invariant((VG_J < (unsigned)(r - index)) ==> A128_SCHED_J_IS(V128_TK1_EXP0(key, VG_J, tweaked), V128_TK1_EXP1(key, VG_J))) \
    __CPROVER_loop_invariant((VG_J >= (unsigned)(r - index)) ==> A128_SCHED_J_IS(VG_OLD0, VG_OLD1)) \
    __CPROVER_decreases(index)
#define VT_Skinny128__setTK1_1 A128_PTR_NORM

/* ---- xorTK1(key) ---- */
#define VC_Skinny128__xorTK1 \
    __CPROVER_requires(A128_INV && VG_J < VERIF_ARD_ROUNDS) \
    __CPROVER_requires(V128_TK1ARG_VALID(key)) \
    __CPROVER_assigns(A128_SCHED, __CPROVER_object_whole(VG_T), VG_OLD0, VG_OLD1) \
    __CPROVER_ensures(A128_SCHED_J_IS(__CPROVER_old(s[2 * VG_J]) ^ V128_TK1ROW(key, VG_J, 0), \
                                                  __CPROVER_old(s[2 * VG_J + 1]) ^ V128_TK1ROW(key, VG_J, 1)))
#define VE_Skinny128__xorTK1 V128_LOAD_PADDED(VG_T, key, 16) A128_SAVE_OLD
#define VL_Skinny128__xorTK1_1 \
    __CPROVER_assigns(index, schedule, __CPROVER_object_whole(TK1), A128_SCHED, __CPROVER_object_whole(VG_T)) \
    __CPROVER_loop_invariant(index <= r) \
    __CPROVER_loop_invariant(schedule == s + 2 * (r - index)) \
    __CPROVER_loop_invariant(A128_ARR_IS_GHOST(TK1, VG_T)) \
    __CPROVER_loop_invariant(V128_T_IS_KEYPERM(VG_T, key, r - index)) \
    __CPROVER_loop_invariant((VG_J < (unsigned)(r - index)) ==> A128_SCHED_J_IS(VG_OLD0 ^ V128_TK1ROW(key, VG_J, 0), VG_OLD1 ^ V128_TK1ROW(key, VG_J, 1))) \
    __CPROVER_loop_invariant((VG_J >= (unsigned)(r - index)) ==> A128_SCHED_J_IS(VG_OLD0, VG_OLD1)) \
    __CPROVER_decreases(index)
#define VT_Skinny128__xorTK1_1 A128_PTR_NORM spec128_tk_permute(VG_T);

/* ---- setTK2 / setTK3 (always a full 16-byte block): the library's ghost program ---- */
#define A128_TKN_CONTRACT(SNAP, KEYV, SIZEV, NV) \
    __CPROVER_requires(A128_INV && VG_J < VERIF_ARD_ROUNDS) \
    __CPROVER_requires(__CPROVER_is_fresh(key, 16)) \
    __CPROVER_assigns(A128_SCHED, __CPROVER_object_whole(VG_T), __CPROVER_object_whole(SNAP), VG_OLD0, VG_OLD1, KEYV, SIZEV, NV) \
    __CPROVER_ensures(A128_SCHED_J_IS(__CPROVER_old(s[2 * VG_J]) ^ VPACK32(SNAP, 0), __CPROVER_old(s[2 * VG_J + 1]) ^ VPACK32(SNAP, 1))) \
    __CPROVER_ensures(KEYV == key && SIZEV == 16 && NV == __CPROVER_old(NV) + 1)
#define A128_TKN_ENTRY(KEYV, SIZEV, NV) V128_LOAD_PADDED(VG_T, key, 16) A128_SAVE_OLD KEYV = key; SIZEV = 16; NV = NV + 1;
#define A128_TKN_LOOP(TK, SNAP) \
    __CPROVER_assigns(index, schedule, __CPROVER_object_whole(TK), A128_SCHED, __CPROVER_object_whole(VG_T), __CPROVER_object_whole(SNAP)) \
    __CPROVER_loop_invariant(index <= r) \
    __CPROVER_loop_invariant(schedule == s + 2 * (r - index)) \
    __CPROVER_loop_invariant(A128_ARR_IS_GHOST(TK, VG_T)) \
    __CPROVER_loop_invariant((VG_J < (unsigned)(r - index)) ==> A128_SCHED_J_IS(VG_OLD0 ^ VPACK32(SNAP, 0), VG_OLD1 ^ VPACK32(SNAP, 1))) \
    __CPROVER_loop_invariant((VG_J >= (unsigned)(r - index)) ==> A128_SCHED_J_IS(VG_OLD0, VG_OLD1)) \
    __CPROVER_decreases(index)
#define VC_Skinny128__setTK2 A128_TKN_CONTRACT(VG_SNAP2, VG_TK2_KEY, VG_TK2_SIZE, VG_TK2_N)
#define VE_Skinny128__setTK2 A128_TKN_ENTRY(VG_TK2_KEY, VG_TK2_SIZE, VG_TK2_N)
#define VL_Skinny128__setTK2_1 A128_TKN_LOOP(TK2, VG_SNAP2)
#define VT_Skinny128__setTK2_1 A128_PTR_NORM if ((unsigned)(r - index) == VG_J) { V128_COPY8(VG_SNAP2, VG_T) } spec128_tk_permute(VG_T); spec128_tk_lfsr2(VG_T);
#define VC_Skinny128__setTK3 A128_TKN_CONTRACT(VG_SNAP3, VG_TK3_KEY, VG_TK3_SIZE, VG_TK3_N)
#define VE_Skinny128__setTK3 A128_TKN_ENTRY(VG_TK3_KEY, VG_TK3_SIZE, VG_TK3_N)
#define VL_Skinny128__setTK3_1 A128_TKN_LOOP(TK3, VG_SNAP3)
#define VT_Skinny128__setTK3_1 A128_PTR_NORM if ((unsigned)(r - index) == VG_J) { V128_COPY8(VG_SNAP3, VG_T) } spec128_tk_permute(VG_T); spec128_tk_lfsr3(VG_T);

/* ---- clear(): the schedule is erased ---- */
#define VC_Skinny128__clear \
    __CPROVER_requires(A128_INV && VG_W < 8u * VERIF_ARD_ROUNDS) \
    __CPROVER_assigns(A128_SCHED) \
    __CPROVER_ensures(((const uint8_t *)sched)[VG_W] == 0)

/* ---- leaf setKey: length check, round count and schedule of the corresponding library variant:
 *      V128_INNER_ROW0/1 and V128_ROUNDS are the expressions proved for skinny128_set_key_inner ---- */
#define A128_T_ZERO (t[0] == 0 && t[1] == 0 && t[2] == 0 && t[3] == 0 && t[4] == 0 && t[5] == 0 && t[6] == 0 && t[7] == 0 && \
                     t[8] == 0 && t[9] == 0 && t[10] == 0 && t[11] == 0 && t[12] == 0 && t[13] == 0 && t[14] == 0 && t[15] == 0)
#define A128_INNER_POST(key, key_size, tweak) \
    (r == V128_ROUNDS(key_size, tweak) && \
     (A128_SCHED_J_IS(V128_INNER_ROW0(key, key_size, tweak), V128_INNER_ROW1(key, key_size, tweak))) && \
     (V128_HAS2(key_size, tweak) ==> (VG_TK2_KEY == ((tweak) ? (const void *)(key) : (const void *)(VU8(key) + 16)) && VG_TK2_SIZE == 16)) && \
     (V128_HAS3(key_size, tweak) ==> (VG_TK3_KEY == ((tweak) ? (const void *)(VU8(key) + 16) : (const void *)(VU8(key) + 32)) && VG_TK3_SIZE == 16)))
#ifdef VERIF_ARD_TWEAKED
#define A128_TWEAKPTR t
#define A128_OBJ A128_SCHED, __CPROVER_object_whole(t)
#define A128_T_ZERO_IF_TWEAKED A128_T_ZERO
#else
#define A128_TWEAKPTR ((const uint8_t *)0)
#define A128_OBJ A128_SCHED
#define A128_T_ZERO_IF_TWEAKED 1
#endif
#define A128_SETKEY_CONTRACT \
    __CPROVER_requires(A128_INV && VG_J < VERIF_ARD_ROUNDS) \
    __CPROVER_requires(len != VERIF_ARD_KEYLEN || __CPROVER_is_fresh(key, VERIF_ARD_KEYLEN)) \
    __CPROVER_assigns(len == VERIF_ARD_KEYLEN: A128_OBJ, V128_KEYGHOSTS) \
    __CPROVER_ensures(__CPROVER_return_value == (len == VERIF_ARD_KEYLEN)) \
    __CPROVER_ensures(__CPROVER_return_value ==> A128_T_ZERO_IF_TWEAKED) \
    __CPROVER_ensures(__CPROVER_return_value ==> A128_INNER_POST(key, VERIF_ARD_KEYLEN, A128_TWEAKPTR)) \
    __CPROVER_ensures(__CPROVER_return_value ==> (VG_TK1_N == __CPROVER_old(VG_TK1_N) + 1 && \
        VG_TK2_N == __CPROVER_old(VG_TK2_N) + (V128_HAS2(VERIF_ARD_KEYLEN, A128_TWEAKPTR) ? 1 : 0) && \
        VG_TK3_N == __CPROVER_old(VG_TK3_N) + (V128_HAS3(VERIF_ARD_KEYLEN, A128_TWEAKPTR) ? 1 : 0)))
#define VC_Skinny128_128__setKey A128_SETKEY_CONTRACT
#define VC_Skinny128_256__setKey A128_SETKEY_CONTRACT
#define VC_Skinny128_384__setKey A128_SETKEY_CONTRACT
#define VC_Skinny128_256_Tweaked__setKey A128_SETKEY_CONTRACT
#define VC_Skinny128_384_Tweaked__setKey A128_SETKEY_CONTRACT

#ifdef VERIF_ARD_TWEAKED
/* ---- resetTweak(): zero tweak, TK1 := tweak with the tweak-domain bit ---- */
#define VC_Skinny128_Tweaked__resetTweak \
    __CPROVER_requires(A128_INV && VG_J < VERIF_ARD_ROUNDS) \
    __CPROVER_assigns(A128_OBJ, VG_OLD0, VG_OLD1, VG_TK1_KEY, VG_TK1_TWEAKED, VG_TK1_N) \
    __CPROVER_ensures(A128_T_ZERO) \
    __CPROVER_ensures(A128_SCHED_J_IS(V128_TK1_EXP0(t, VG_J, 1), V128_TK1_EXP1(t, VG_J))) \
    __CPROVER_ensures(VG_TK1_N == __CPROVER_old(VG_TK1_N) + 1)

/* ---- setTweak(tweak, len): history independence through the abstract view
 *        KP_J := (s[2J], s[2J+1]) ^ TK1_J(t)     (key part of the schedule)
 *      unchanged; t := tweak, or all-zero for a null tweak ---- */
#define A128_VIEW0 (s[2 * VG_J] ^ V128_TK1ROW(t, VG_J, 0))
#define A128_VIEW1 (s[2 * VG_J + 1] ^ V128_TK1ROW(t, VG_J, 1))
#define A128_T_IS(tw) \
    (t[0] == ((tw) ? VU8(tw)[0] : 0) && t[1] == ((tw) ? VU8(tw)[1] : 0) && t[2] == ((tw) ? VU8(tw)[2] : 0) && t[3] == ((tw) ? VU8(tw)[3] : 0) && \
     t[4] == ((tw) ? VU8(tw)[4] : 0) && t[5] == ((tw) ? VU8(tw)[5] : 0) && t[6] == ((tw) ? VU8(tw)[6] : 0) && t[7] == ((tw) ? VU8(tw)[7] : 0) && \
     t[8] == ((tw) ? VU8(tw)[8] : 0) && t[9] == ((tw) ? VU8(tw)[9] : 0) && t[10] == ((tw) ? VU8(tw)[10] : 0) && t[11] == ((tw) ? VU8(tw)[11] : 0) && \
     t[12] == ((tw) ? VU8(tw)[12] : 0) && t[13] == ((tw) ? VU8(tw)[13] : 0) && t[14] == ((tw) ? VU8(tw)[14] : 0) && t[15] == ((tw) ? VU8(tw)[15] : 0))
#define VC_Skinny128_Tweaked__setTweak \
    __CPROVER_requires(A128_INV && VG_J < VERIF_ARD_ROUNDS) \
    __CPROVER_requires(tweak == NULL || __CPROVER_is_fresh(tweak, 16)) \
    __CPROVER_assigns(len == 16: A128_OBJ) \
    __CPROVER_assigns(__CPROVER_object_whole(VG_T), VG_OLD0, VG_OLD1, VG_KP0, VG_KP1) \
    __CPROVER_ensures(__CPROVER_return_value == (len == 16)) \
    __CPROVER_ensures(__CPROVER_return_value ==> A128_T_IS(tweak)) \
    __CPROVER_ensures(__CPROVER_return_value ==> (A128_VIEW0 == VG_KP0 && A128_VIEW1 == VG_KP1))
#define VE_Skinny128_Tweaked__setTweak VG_KP0 = A128_VIEW0; VG_KP1 = A128_VIEW1;

#define VC_Skinny128_Tweaked__clear \
    __CPROVER_requires(A128_INV && VG_W < 8u * VERIF_ARD_ROUNDS) \
    __CPROVER_assigns(A128_OBJ) \
    __CPROVER_ensures((VG_W < 16 ==> t[VG_W] == 0) && ((const uint8_t *)sched)[VG_W] == 0)
#endif

#endif
