/* Contracts for src/skinny-internal.c: CPU feature probes against an ASSUMED model of CPUID /
 * XGETBV (Intel SDM vol. 2: CPUID leaf 0 EAX = maximum basic leaf; leaf 1 EDX[26] SSE2,
 * ECX[27] OSXSAVE, ECX[28] AVX; leaf 7 sub-leaf 0 EBX[5] AVX2; XCR0[1] SSE state, XCR0[2] AVX
 * state), and the aligned allocator.  gcc inline asm is a no-op in CBMC, so the harness TU
 * re-defines the <cpuid.h> macros to call the model below.  __cpuid() leaves ECX (the
 * sub-leaf) UNSPECIFIED, which the model represents by a nondeterministic sub-leaf: any
 * other sub-leaf of leaf 7 returns unrelated data. */
#ifndef CONTRACTS_SKINNY_INTERNAL_C_H
#define CONTRACTS_SKINNY_INTERNAL_C_H
#include "skinny-internal.h"

typedef struct {
    uint32_t max_leaf;
    uint32_t l1_ecx, l1_edx;
    uint32_t l7s0_ebx;
    uint64_t xcr0;
} verif_cpu_t;
static verif_cpu_t VG_CPU;       /* arbitrary but fixed modelled machine */
uint32_t nondet_u32(void);

static inline void verif_cpuid(uint32_t leaf, uint32_t subleaf, uint32_t *a, uint32_t *b, uint32_t *c, uint32_t *d)
{
    *a = nondet_u32(); *b = nondet_u32(); *c = nondet_u32(); *d = nondet_u32();
    if (leaf == 0) {
        *a = VG_CPU.max_leaf;
    } else if (leaf == 1 && VG_CPU.max_leaf >= 1) {
        *c = VG_CPU.l1_ecx; *d = VG_CPU.l1_edx;
    } else if (leaf == 7 && subleaf == 0 && VG_CPU.max_leaf >= 7) {
        *b = VG_CPU.l7s0_ebx;
    }
    /* every other (leaf, sub-leaf), and leaves above max_leaf: unrelated data */
}

/* what the machine really offers */
#define VCPU_SSE2 (VG_CPU.max_leaf >= 1 && ((VG_CPU.l1_edx >> 26) & 1))
#define VCPU_AVX2_USABLE \
    (VG_CPU.max_leaf >= 7 && ((VG_CPU.l1_ecx >> 27) & 1) && ((VG_CPU.l1_ecx >> 28) & 1) && \
     (VG_CPU.xcr0 & 6) == 6 && ((VG_CPU.l7s0_ebx >> 5) & 1))

#define VC__skinny_has_vec128 \
    __CPROVER_requires(VG_CPU.max_leaf >= 1 /* every x86-64 CPU */) \
    __CPROVER_assigns() \
    __CPROVER_ensures(__CPROVER_return_value == (VCPU_SSE2 ? 1 : 0))
#define VC__skinny_has_vec256 \
    __CPROVER_requires(VG_CPU.max_leaf >= 1) \
    __CPROVER_assigns() \
    __CPROVER_ensures(__CPROVER_return_value == (VCPU_AVX2_USABLE ? 1 : 0))
/* assumed contract of the XGETBV wrapper (asm; only executed when OSXSAVE is set) */
#define VC_skinny_xgetbv0 \
    __CPROVER_requires(((VG_CPU.l1_ecx >> 27) & 1) != 0 /* XGETBV faults (#UD) without OSXSAVE */) \
    __CPROVER_assigns() \
    __CPROVER_ensures(__CPROVER_return_value == VG_CPU.xcr0)

/* skinny_calloc: NULL on failure (nothing stored); else a 32-byte aligned pointer inside one
   fresh zeroed block of size + 31 bytes whose base is stored for the later free() */
#define VC_skinny_calloc \
    __CPROVER_requires(size <= 4096 && __CPROVER_is_fresh(base_ptr, sizeof(void *))) \
    __CPROVER_assigns(*base_ptr) \
    __CPROVER_ensures(__CPROVER_return_value == NULL ==> *base_ptr == __CPROVER_old(*base_ptr)) \
    __CPROVER_ensures(__CPROVER_return_value != NULL ==> ( \
        __CPROVER_is_fresh(*base_ptr, size + 31) && \
        __CPROVER_same_object(__CPROVER_return_value, *base_ptr) && \
        (((uintptr_t)__CPROVER_return_value) & 31) == 0 && \
        (size_t)((const char *)__CPROVER_return_value - (const char *)*base_ptr) <= 31))

/* the same contract specialised to the allocation layout "calloc returned a 32-byte aligned block" (alignment
   offset 0 of the 0..31 the general contract allows): used where skinny_calloc is REPLACED in the SIMD init
   jobs - with a symbolic alignment offset every later field access is at a symbolic offset and CBMC runs out
   of memory (14 GB).  Listed as an assumption of those jobs. */
#define VC_skinny_calloc_ALIGNED \
    __CPROVER_requires(size <= 4096 && __CPROVER_is_fresh(base_ptr, sizeof(void *))) \
    __CPROVER_assigns(*base_ptr) \
    __CPROVER_ensures(__CPROVER_return_value == NULL ==> *base_ptr == __CPROVER_old(*base_ptr)) \
    __CPROVER_ensures(__CPROVER_return_value != NULL ==> (__CPROVER_is_fresh(__CPROVER_return_value, size + 31) && *base_ptr == __CPROVER_return_value))
/* (is_fresh is applied to the return value, not to *base_ptr: the latter form sends symex into a non-terminating
   search in the installed CBMC) */
#endif
