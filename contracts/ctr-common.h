/* Contracts shared by all CTR back ends (generic and SIMD) of all three ciphers:
 * object life cycle (C15, C16, C17), error contract (C14), counter set-up and
 * stream coverage (C05).  Parameterised by the context type CTX, the public
 * handle type CTR, the block size B and the batch size in bytes BATCH
 * (B for the generic back ends, 4B / 8B for the SIMD ones).
 *
 * Abstract object states of a handle (ctr->ctx):  NULL = inert / cleaned,
 * non-NULL = live, pointing to exactly one allocator block. */
#ifndef CONTRACTS_CTR_COMMON_H
#define CONTRACTS_CTR_COMMON_H
#include "skinny-internal.h"

/* ---- free() is redirected (in the harness TU only) to a checker that asserts,
 *      for the arbitrary witness VG_W, that the state byte VG_W is zero at the moment
 *      the block is returned to the allocator (C17), then really frees it. ---- */
static const uint8_t *VG_STATE_PTR;   /* start of the key-dependent state inside the block */
static size_t VG_STATE_SIZE;          /* its size */
static unsigned VG_FREE_N;            /* number of free() calls */
static inline void verif_free(void *p)
{
    __CPROVER_assert(VG_W >= VG_STATE_SIZE || VG_STATE_PTR[VG_W] == 0,
                     "C17 erasure: every byte of the context is zero when the block is freed");
    VG_FREE_N = VG_FREE_N + 1;
    free(p);
}

#define VCTR_HANDLE_OK(ctr, CTR, CTX) \
    (__CPROVER_is_fresh(ctr, sizeof(CTR)) && ((ctr)->ctx == NULL || __CPROVER_is_fresh((ctr)->ctx, sizeof(CTX))))

/* ---- <backend>_init(ctr): on success the handle owns a fresh zeroed context with the
 *      keystream marked exhausted; on allocation failure it returns 0 and allocates nothing ---- */
#define VCTR_INIT_CONTRACT(CTR, CTX, BATCH) \
    __CPROVER_requires(__CPROVER_is_fresh(ctr, sizeof(CTR))) \
    __CPROVER_assigns(ctr->ctx) \
    __CPROVER_ensures(__CPROVER_return_value == 0 || __CPROVER_return_value == 1) \
    __CPROVER_ensures(__CPROVER_return_value == 1 ==> (__CPROVER_is_fresh(ctr->ctx, sizeof(CTX)) && \
                      ((CTX *)ctr->ctx)->offset == (BATCH))) \
    __CPROVER_ensures(__CPROVER_return_value == 1 ==> \
                      (VG_W >= sizeof(CTX) || (VG_W >= offsetof(CTX, offset) && VG_W < offsetof(CTX, offset) + sizeof(unsigned)) || \
                       ((const uint8_t *)ctr->ctx)[VG_W] == 0)) \
    __CPROVER_ensures(__CPROVER_return_value == 0 ==> ctr->ctx == __CPROVER_old(ctr->ctx))

/* ---- <backend>_cleanup(ctr): live -> wiped, freed exactly once, handle inert;
 *      inert -> nothing happens (empty frame) ---- */
#define VCTR_CLEANUP_CONTRACT(CTR, CTX) \
    __CPROVER_requires(VCTR_HANDLE_OK(ctr, CTR, CTX)) \
    __CPROVER_assigns(ctr->ctx != NULL: ctr->ctx, __CPROVER_object_whole(ctr->ctx), VG_STATE_PTR, VG_STATE_SIZE, VG_FREE_N) \
    __CPROVER_frees(ctr->ctx) \
    __CPROVER_ensures(ctr->ctx == NULL) \
    __CPROVER_ensures(__CPROVER_old(ctr->ctx) != NULL ==> __CPROVER_was_freed(__CPROVER_old(ctr->ctx))) \
    __CPROVER_ensures(VG_FREE_N == __CPROVER_old(VG_FREE_N) + (__CPROVER_old(ctr->ctx) != NULL ? 1 : 0))
#define VCTR_CLEANUP_ENTRY(CTX) \
    if (ctr->ctx) { VG_STATE_PTR = (const uint8_t *)ctr->ctx; VG_STATE_SIZE = sizeof(CTX); }

/* ========================================================================
 * CTR stream coverage (C05 layer B).  No data byte is inspected; the ghost
 * state records WHICH keystream byte is combined with WHICH data byte.
 *   VG_C      mirror of the big-endian counter value (block index of the NEXT block to encrypt;
 *             SIMD: of lane 0 of the next batch)
 *   VG_EBLK   block index whose encryption starts the keystream buffer
 *   VG_GP     number of data bytes consumed so far by this call
 *   VG_C0/O0  counter / buffer offset at entry
 * Absolute keystream position of the next byte = (VG_C - 1) * B + offset  (generic),
 * so "position advances exactly with the data" is
 *      (VG_C - VG_C0) * B + offset == VG_O0 + VG_GP
 * in 128-bit arithmetic (B = batch bytes for the SIMD back ends, counting batches).
 * ====================================================================== */
static vu128 VG_C, VG_C0, VG_EBLK;
static size_t VG_GP, VG_O0, VG_V0;
static uint8_t *VG_OUT; static const uint8_t *VG_IN; static const uint8_t *VG_KS;
#define VERIF_MAX_DATA ((size_t)1 << 40)

/* role contract of a data xor inside a CTR encrypt loop: n bytes at data position VG_GP, keystream
   bytes [o, o+n) of the buffer holding block(s) VG_EBLK.. ; asserted at every call site */
/* B = block bytes, LANES = blocks per keystream buffer (1 for the generic back ends) */
#define VCTR_XOR_ROLE_L(outp, inp, ksp, n, B, LANES) \
    __CPROVER_requires((uint8_t *)(outp) == VG_OUT + VG_GP && (const uint8_t *)(inp) == VG_IN + VG_GP) \
    __CPROVER_requires((n) <= VG_V0 - VG_GP) \
    __CPROVER_requires((const uint8_t *)(ksp) >= VG_KS && (size_t)((const uint8_t *)(ksp) - VG_KS) + (n) <= (size_t)(B) * (LANES)) \
    __CPROVER_requires((VG_EBLK - (VG_C0 - (LANES))) * (B) + (vu128)((const uint8_t *)(ksp) - VG_KS) == (vu128)VG_O0 + VG_GP) \
    __CPROVER_requires((VG_EBLK - (VG_C0 - (LANES))) <= (VG_GP / (B)) + (LANES)) \
    __CPROVER_assigns(VG_GP) /* the write to [outp, outp+n) is abstracted: its extent is asserted above, its content is irrelevant here */ \
    __CPROVER_ensures(VG_GP == __CPROVER_old(VG_GP) + (n))
#define VCTR_XOR_ROLE(outp, inp, ksp, n, BATCH) VCTR_XOR_ROLE_L(outp, inp, ksp, n, BATCH, 1)

#endif
