/* Lane-wise definition of vector >> scalar (GCC's documented semantics), used by the text that
 * engine/vshr.py substitutes for every vector-typed `>>` (DESIGN 2.2a). */
#ifndef VERIF_VSHR_H
#define VERIF_VSHR_H
#define SKINNY_VERIF_VSHR_SkinnyVector4x32_t(a, b) \
    ((SkinnyVector4x32_t){(a)[0] >> (b), (a)[1] >> (b), (a)[2] >> (b), (a)[3] >> (b)})
#define SKINNY_VERIF_VSHR_SkinnyVector8x32_t(a, b) \
    ((SkinnyVector8x32_t){(a)[0] >> (b), (a)[1] >> (b), (a)[2] >> (b), (a)[3] >> (b), \
                          (a)[4] >> (b), (a)[5] >> (b), (a)[6] >> (b), (a)[7] >> (b)})
#define SKINNY_VERIF_VSHR_SkinnyVector8x16_t(a, b) \
    ((SkinnyVector8x16_t){(uint16_t)((a)[0] >> (b)), (uint16_t)((a)[1] >> (b)), (uint16_t)((a)[2] >> (b)), (uint16_t)((a)[3] >> (b)), \
                          (uint16_t)((a)[4] >> (b)), (uint16_t)((a)[5] >> (b)), (uint16_t)((a)[6] >> (b)), (uint16_t)((a)[7] >> (b))})
#endif
