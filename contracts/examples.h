/* C20: contracts for the example tools (examples/*.c).
 *
 * stdio is replaced (macro redirection in the harness TU only) by a GHOST FILE MODEL that tracks
 * positions, never data bytes: an input file of arbitrary length VF_INLEN, the read position, the
 * end-of-file flag, the number of bytes written so far, and which span of the input the tool's buffer
 * currently holds and whether the library has transformed it.  The model is the ASSUMED contract of
 * fopen/fread/feof/fwrite/fclose (regular files: a short read happens only at end of file).
 * The library is replaced by ROLE contracts that are checked at every call site: right object, right
 * buffer, right length, key and counter/tweak set before the first data call.
 * What is proved, for every file length: bytes written == bytes read (skinny-ctr) or rounded down to
 * whole blocks (skinny-ecb), each chunk is written at the file position it was read from, after the
 * library transformed exactly that chunk; both files are closed; invalid options -> non-zero exit before
 * the output file is opened. */
#ifndef CONTRACTS_EXAMPLES_H
#define CONTRACTS_EXAMPLES_H
#include <stdio.h>
#include <stdint.h>
#include <stddef.h>
#include "verif_common.h"

static size_t VF_INLEN, VF_INPOS, VF_OUTLEN;
static int VF_EOF, VF_IN_OPEN, VF_OUT_OPEN, VF_IN_CLOSED, VF_OUT_CLOSED, VF_OUT_EVER;
static const void *VF_BUF; static size_t VF_BUF_POS, VF_BUF_LEN, VF_XLEN; static int VF_XFORMED;
static int VF_INTAG, VF_OUTTAG;
static int VG_EXOPT;                  /* what parse_options returned to main() */
static int VF_TOOL_ROUNDS_DOWN;      /* 0: skinny-ctr (every byte), 1: skinny-ecb / skinny-tweak (whole blocks) */
extern unsigned block_size;
int nondet_int(void); size_t nondet_size_t(void);

static inline FILE *verif_fopen(const char *name, const char *mode)
{
    __CPROVER_assert(name != NULL && mode != NULL, "C20 fopen arguments");
    if (mode[0] == 'r') {
        if (nondet_int()) return NULL;
        VF_IN_OPEN = 1; VF_INPOS = 0; VF_EOF = 0;
        return (FILE *)&VF_INTAG;
    }
    __CPROVER_assert(VF_IN_OPEN, "C20 output opened only after the input could be opened");
    VF_OUT_EVER = 1;
    if (nondet_int()) return NULL;
    VF_OUT_OPEN = 1; VF_OUTLEN = 0;
    return (FILE *)&VF_OUTTAG;
}
static inline size_t verif_fread(void *buf, size_t sz, size_t n, FILE *f)
{
    size_t k = nondet_size_t();
    __CPROVER_assert(f == (FILE *)&VF_INTAG && VF_IN_OPEN && !VF_IN_CLOSED && sz == 1 && n == 1024, "C20 fread on the open input file, one 1024-byte chunk");
    __CPROVER_assume(k <= n && k <= VF_INLEN - VF_INPOS && (k < n ==> VF_INPOS + k == VF_INLEN));
    VF_BUF = buf; VF_BUF_POS = VF_INPOS; VF_BUF_LEN = k; VF_XFORMED = 0; VF_XLEN = 0;
    VF_INPOS = VF_INPOS + k;
    if (k < n) VF_EOF = 1;
    return k;
}
static inline int verif_feof(FILE *f)
{
    __CPROVER_assert(f == (FILE *)&VF_INTAG, "C20 feof on the input file");
    return VF_EOF;
}
static inline size_t verif_fwrite(const void *buf, size_t sz, size_t n, FILE *f)
{
    size_t want = VF_TOOL_ROUNDS_DOWN ? VF_BUF_LEN - (VF_BUF_LEN % block_size) : VF_BUF_LEN;
    __CPROVER_assert(f == (FILE *)&VF_OUTTAG && VF_OUT_OPEN && !VF_OUT_CLOSED && sz == 1, "C20 fwrite on the open output file");
    __CPROVER_assert(buf == VF_BUF && n == want, "C20 the chunk that was read is written, complete (ctr) / rounded down to whole blocks (ecb, tweak)");
    __CPROVER_assert(n == 0 || (VF_XFORMED && VF_XLEN == n), "C20 the chunk was transformed by the library, over exactly the written length, before it is written");
    __CPROVER_assert(VF_OUTLEN == VF_BUF_POS, "C20 the chunk is written at the file position it was read from");
    VF_OUTLEN = VF_OUTLEN + n;
    return n;
}
static inline int verif_fclose(FILE *f)
{
    if (f == (FILE *)&VF_INTAG) { __CPROVER_assert(VF_IN_OPEN && !VF_IN_CLOSED, "C20 input closed once"); VF_IN_CLOSED = 1; }
    else { __CPROVER_assert(f == (FILE *)&VF_OUTTAG && VF_OUT_OPEN && !VF_OUT_CLOSED, "C20 output closed once"); VF_OUT_CLOSED = 1; }
    return 0;
}

/* ---- options as left by parse_options (its own contract, proved in job ex.parse_options.*) ---- */
extern char *input_filename; extern char *output_filename; extern uint8_t key[]; extern unsigned key_size;
extern uint8_t tweak[]; extern unsigned tweak_size; extern int encrypt;
#define VEX_OPTS_OK(flags) \
    ((block_size == 8 || block_size == 16) && input_filename != NULL && output_filename != NULL && \
     key_size >= block_size && key_size <= (((flags) & 1) ? 2 * block_size : 3 * block_size) && \
     tweak_size >= 1 && tweak_size <= block_size)
#define VC_parse_options \
    __CPROVER_assigns(input_filename, output_filename, block_size, key_size, tweak_size, encrypt, \
                      __CPROVER_object_upto(key, 48), __CPROVER_object_upto(tweak, 16)) \
    __CPROVER_ensures(__CPROVER_return_value == 0 || __CPROVER_return_value == 1) \
    __CPROVER_ensures(__CPROVER_return_value == 1 ==> VEX_OPTS_OK(flags))
/* the same contract as seen by main(): the file names are readable strings (they are argv elements) and the
   result is recorded in the ghost VG_EXOPT */
#define VC_parse_options_ROLE VC_parse_options __CPROVER_assigns(VG_EXOPT) __CPROVER_ensures(VG_EXOPT == __CPROVER_return_value) \
    __CPROVER_ensures(__CPROVER_return_value == 1 ==> (__CPROVER_is_fresh(input_filename, 1) && __CPROVER_is_fresh(output_filename, 1)))

/* ---- library role contracts (C05 / C07 / C10 / C15 give their functional meaning) ---- */
static const void *VX_OBJ128, *VX_OBJ64; static int VX_KEYED, VX_CTRSET, VX_INIT128, VX_INIT64, VX_CLEAN128, VX_CLEAN64;
#define VX_INIT(N) __CPROVER_assigns(VX_OBJ##N, VX_INIT##N) __CPROVER_ensures(VX_OBJ##N == (const void *)obj && VX_INIT##N == 1 && __CPROVER_return_value == 1)
#define VX_SETKEY(N, B) \
    __CPROVER_requires((const void *)obj == VX_OBJ##N && VX_INIT##N && block_size == (B) && k == (const void *)key && n == key_size && n >= (B) && n <= 3 * (B)) \
    __CPROVER_assigns(VX_KEYED) __CPROVER_ensures(VX_KEYED == 1 && __CPROVER_return_value == 1)
#define VX_SETCTR(N, B) \
    __CPROVER_requires((const void *)obj == VX_OBJ##N && VX_KEYED && block_size == (B) && c == (const void *)tweak && n == tweak_size && n <= (B)) \
    __CPROVER_assigns(VX_CTRSET) __CPROVER_ensures(VX_CTRSET == 1 && __CPROVER_return_value == 1)
#define VX_XFORM(N, B, NEEDCTR) \
    __CPROVER_requires((const void *)obj == VX_OBJ##N && VX_KEYED && (!(NEEDCTR) || VX_CTRSET) && block_size == (B)) \
    __CPROVER_requires(output == (void *)VF_BUF && input == VF_BUF && size == (VF_TOOL_ROUNDS_DOWN ? VF_BUF_LEN - (VF_BUF_LEN % (B)) : VF_BUF_LEN)) \
    __CPROVER_assigns(VF_XFORMED, VF_XLEN) __CPROVER_ensures(VF_XFORMED == 1 && VF_XLEN == size && __CPROVER_return_value == 1)
#define VX_CLEANUP(N) __CPROVER_requires((const void *)obj == VX_OBJ##N && VX_INIT##N) __CPROVER_assigns(VX_CLEAN##N) __CPROVER_ensures(VX_CLEAN##N == 1)

/* ---- main(): exit status and file effects, for every input length ---- */
#define VEX_MAIN_CONTRACT(FLAGS, ROUNDS_DOWN) \
    __CPROVER_requires(VF_TOOL_ROUNDS_DOWN == (ROUNDS_DOWN) && VG_EXOPT == 0) \
    __CPROVER_requires(VF_IN_OPEN == 0 && VF_OUT_OPEN == 0 && VF_OUT_EVER == 0 && VF_IN_CLOSED == 0 && VF_OUT_CLOSED == 0 && VX_KEYED == 0 && VX_CTRSET == 0) \
    __CPROVER_requires(VX_INIT128 == 0 && VX_INIT64 == 0 && VX_CLEAN128 == 0 && VX_CLEAN64 == 0) \
    __CPROVER_assigns(input_filename, output_filename, block_size, key_size, tweak_size, encrypt, __CPROVER_object_upto(key, 48), __CPROVER_object_upto(tweak, 16)) \
    __CPROVER_assigns(VF_INPOS, VF_OUTLEN, VF_EOF, VF_IN_OPEN, VF_OUT_OPEN, VF_IN_CLOSED, VF_OUT_CLOSED, VF_OUT_EVER, VF_BUF, VF_BUF_POS, VF_BUF_LEN, VF_XLEN, VF_XFORMED) \
    __CPROVER_assigns(VX_OBJ128, VX_OBJ64, VX_KEYED, VX_CTRSET, VX_INIT128, VX_INIT64, VX_CLEAN128, VX_CLEAN64, VG_EXOPT) \
    __CPROVER_ensures(__CPROVER_return_value == 0 || __CPROVER_return_value == 1) \
    __CPROVER_ensures(VG_EXOPT == 0 ==> (__CPROVER_return_value == 1 && VF_OUT_EVER == 0)) \
    __CPROVER_ensures(__CPROVER_return_value == 0 ==> (VF_IN_CLOSED && VF_OUT_CLOSED && VX_CLEAN128 == VX_INIT128 && VX_CLEAN64 == VX_INIT64 && \
        VF_OUTLEN == (VF_TOOL_ROUNDS_DOWN ? VF_INLEN - (VF_INLEN % block_size) : VF_INLEN))) \
    __CPROVER_ensures((__CPROVER_return_value == 1 && VF_IN_OPEN) ==> VF_IN_CLOSED)
#define VEX_MAIN_LOOP_ASSIGNS read_size, VF_INPOS, VF_OUTLEN, VF_EOF, VF_BUF, VF_BUF_POS, VF_BUF_LEN, VF_XLEN, VF_XFORMED
#define VEX_MAIN_LOOP_INV \
    __CPROVER_loop_invariant(VF_INPOS <= VF_INLEN) \
    __CPROVER_loop_invariant(VF_EOF == 0 ==> (VF_OUTLEN == VF_INPOS && (VF_INPOS % 1024) == 0)) \
    __CPROVER_loop_invariant(VF_EOF != 0 ==> (VF_INPOS == VF_INLEN && \
        VF_OUTLEN == (VF_TOOL_ROUNDS_DOWN ? VF_INLEN - (VF_INLEN % block_size) : VF_INLEN)))
#define VEX_MAIN_LOOP __CPROVER_assigns(VEX_MAIN_LOOP_ASSIGNS) VEX_MAIN_LOOP_INV
/* (no decreases clause: the loop condition itself calls fread, and dfcc snapshots the variant after the
   condition; termination of the tools is not part of C20 and is not claimed) */
#endif
