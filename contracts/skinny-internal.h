/* Contracts for the helpers in src/skinny-internal.h (inlined into every
 * library TU).  Included by every harness before the real sources. */
#ifndef CONTRACTS_SKINNY_INTERNAL_H
#define CONTRACTS_SKINNY_INTERNAL_H
#include <stdlib.h>
#include "verif_common.h"

static size_t VG_W;        /* witness byte index (arbitrary) */

/* ------------------------------------------------------------------------
 * skinny_cleanse(ptr, size): every byte of [ptr, ptr+size) is zero afterwards,
 * nothing else is written.  VG_W is an arbitrary witness index.
 * The loop walks a volatile pointer; the invariant ties it to the entry value.
 * ---------------------------------------------------------------------- */
#ifndef VERIF_CLEANSE_MAX
#define VERIF_CLEANSE_MAX 4096
/* ------------------------------------------------------------------------
 * layer A lemmas for the block xor and counter increment helpers (functional contracts;
 * inside the CTR coverage jobs the same functions carry their ROLE contracts instead).
 * ---------------------------------------------------------------------- */
#ifndef VERIF_ROLE_CTR
#define VXORB_CONTRACT(N) \
    __CPROVER_requires(__CPROVER_is_fresh(input1, N) && __CPROVER_is_fresh(input2, N)) \
    __CPROVER_requires(__CPROVER_is_fresh(output, N) || __CPROVER_pointer_equals(output, (void *)input1)) \
    __CPROVER_assigns(__CPROVER_object_upto(output, N), VG_XA, VG_XB) \
    __CPROVER_ensures(VG_W < N ==> ((const uint8_t *)output)[VG_W] == (uint8_t)(VG_XA ^ VG_XB))
#define VXORB_ENTRY(N) \
    if (VG_W < N) { VG_XA = ((const uint8_t *)input1)[VG_W]; VG_XB = ((const uint8_t *)input2)[VG_W]; }
#define VC_skinny128_xor VXORB_CONTRACT(16)
#define VE_skinny128_xor VXORB_ENTRY(16)
#define VC_skinny64_xor VXORB_CONTRACT(8)
#define VE_skinny64_xor VXORB_ENTRY(8)

/* big-endian counter += inc modulo 2^(8*N), every carry chain and wrap-around */
static vu128 VG_INC0;
#define VC_skinny128_inc_counter \
    __CPROVER_requires(__CPROVER_is_fresh(counter, 16) && inc <= 0xFF00 /* uint16_t accumulator: no overflow; call sites pass 1 */) \
    __CPROVER_assigns(__CPROVER_object_upto(counter, 16), VG_INC0) \
    __CPROVER_ensures(VBE128(counter) == VG_INC0 + inc)
#define VE_skinny128_inc_counter VG_INC0 = VBE128(counter);
#define VC_skinny64_inc_counter \
    __CPROVER_requires(__CPROVER_is_fresh(counter, 8) && inc <= 0xFF00) \
    __CPROVER_assigns(__CPROVER_object_upto(counter, 8), VG_INC0) \
    __CPROVER_ensures(VBE64(counter) == ((VG_INC0 + inc) & (vu128)0xFFFFFFFFFFFFFFFFULL))
#define VE_skinny64_inc_counter VG_INC0 = VBE64(counter);
#endif /* !VERIF_ROLE_CTR */

#endif
#define VC_skinny_cleanse \
    __CPROVER_requires(size <= VERIF_CLEANSE_MAX && __CPROVER_is_fresh(ptr, size)) \
    __CPROVER_assigns(__CPROVER_object_upto(ptr, size)) \
    __CPROVER_ensures(VG_W < size ==> ((const uint8_t *)ptr)[VG_W] == 0)
#define VE_skinny_cleanse size_t verif_v0 = size;
#define VL_skinny_cleanse_1 \
    __CPROVER_assigns(size, p, __CPROVER_object_upto(ptr, verif_v0)) \
    __CPROVER_loop_invariant(size <= verif_v0) \
    __CPROVER_loop_invariant(p == (uint8_t volatile *)ptr + (verif_v0 - size)) \
    __CPROVER_loop_invariant(VG_W < verif_v0 - size ==> ((const uint8_t *)ptr)[VG_W] == 0) \
    __CPROVER_decreases(size)

/* ------------------------------------------------------------------------
 * skinny_xor(output, input1, input2, size): output[k] = input1[k] ^ input2[k]
 * for every k < size (witness VG_W); output may be input1 itself (in-place CTR).
 * ---------------------------------------------------------------------- */
#ifndef VERIF_XOR_MAX
#define VERIF_XOR_MAX 128
/* ------------------------------------------------------------------------
 * layer A lemmas for the block xor and counter increment helpers (functional contracts;
 * inside the CTR coverage jobs the same functions carry their ROLE contracts instead).
 * ---------------------------------------------------------------------- */
#ifndef VERIF_ROLE_CTR
#define VXORB_CONTRACT(N) \
    __CPROVER_requires(__CPROVER_is_fresh(input1, N) && __CPROVER_is_fresh(input2, N)) \
    __CPROVER_requires(__CPROVER_is_fresh(output, N) || __CPROVER_pointer_equals(output, (void *)input1)) \
    __CPROVER_assigns(__CPROVER_object_upto(output, N), VG_XA, VG_XB) \
    __CPROVER_ensures(VG_W < N ==> ((const uint8_t *)output)[VG_W] == (uint8_t)(VG_XA ^ VG_XB))
#define VXORB_ENTRY(N) \
    if (VG_W < N) { VG_XA = ((const uint8_t *)input1)[VG_W]; VG_XB = ((const uint8_t *)input2)[VG_W]; }
#define VC_skinny128_xor VXORB_CONTRACT(16)
#define VE_skinny128_xor VXORB_ENTRY(16)
#define VC_skinny64_xor VXORB_CONTRACT(8)
#define VE_skinny64_xor VXORB_ENTRY(8)

/* big-endian counter += inc modulo 2^(8*N), every carry chain and wrap-around */
static vu128 VG_INC0;
#define VC_skinny128_inc_counter \
    __CPROVER_requires(__CPROVER_is_fresh(counter, 16) && inc <= 0xFF00 /* uint16_t accumulator: no overflow; call sites pass 1 */) \
    __CPROVER_assigns(__CPROVER_object_upto(counter, 16), VG_INC0) \
    __CPROVER_ensures(VBE128(counter) == VG_INC0 + inc)
#define VE_skinny128_inc_counter VG_INC0 = VBE128(counter);
#define VC_skinny64_inc_counter \
    __CPROVER_requires(__CPROVER_is_fresh(counter, 8) && inc <= 0xFF00) \
    __CPROVER_assigns(__CPROVER_object_upto(counter, 8), VG_INC0) \
    __CPROVER_ensures(VBE64(counter) == ((VG_INC0 + inc) & (vu128)0xFFFFFFFFFFFFFFFFULL))
#define VE_skinny64_inc_counter VG_INC0 = VBE64(counter);
#endif /* !VERIF_ROLE_CTR */

#endif
static uint8_t VG_XA, VG_XB;   /* entry values of input1[W], input2[W] */
#ifndef VERIF_ROLE_CTR
#define VC_skinny_xor \
    __CPROVER_requires(size <= VERIF_XOR_MAX) \
    __CPROVER_requires(__CPROVER_is_fresh(input1, size) && __CPROVER_is_fresh(input2, size)) \
    __CPROVER_requires(__CPROVER_is_fresh(output, size) || __CPROVER_pointer_equals(output, (void *)input1)) \
    __CPROVER_assigns(__CPROVER_object_upto(output, size), VG_XA, VG_XB) \
    __CPROVER_ensures(VG_W < size ==> ((const uint8_t *)output)[VG_W] == (uint8_t)(VG_XA ^ VG_XB))
#define VE_skinny_xor \
    size_t verif_v0 = size; \
    if (VG_W < size) { VG_XA = ((const uint8_t *)input1)[VG_W]; VG_XB = ((const uint8_t *)input2)[VG_W]; }
#define VL_skinny_xor_1 \
    __CPROVER_assigns(size, __CPROVER_object_upto(output, verif_v0)) \
    __CPROVER_loop_invariant(size <= verif_v0) \
    __CPROVER_loop_invariant((VG_W < verif_v0 && VG_W >= size) ==> ((const uint8_t *)output)[VG_W] == (uint8_t)(VG_XA ^ VG_XB)) \
    __CPROVER_loop_invariant((VG_W < size) ==> (((const uint8_t *)input1)[VG_W] == VG_XA && ((const uint8_t *)input2)[VG_W] == VG_XB)) \
    __CPROVER_decreases(size)
#endif /* !VERIF_ROLE_CTR */

/* ------------------------------------------------------------------------
 * layer A lemmas for the block xor and counter increment helpers (functional contracts;
 * inside the CTR coverage jobs the same functions carry their ROLE contracts instead).
 * ---------------------------------------------------------------------- */
#ifndef VERIF_ROLE_CTR
#define VXORB_CONTRACT(N) \
    __CPROVER_requires(__CPROVER_is_fresh(input1, N) && __CPROVER_is_fresh(input2, N)) \
    __CPROVER_requires(__CPROVER_is_fresh(output, N) || __CPROVER_pointer_equals(output, (void *)input1)) \
    __CPROVER_assigns(__CPROVER_object_upto(output, N), VG_XA, VG_XB) \
    __CPROVER_ensures(VG_W < N ==> ((const uint8_t *)output)[VG_W] == (uint8_t)(VG_XA ^ VG_XB))
#define VXORB_ENTRY(N) \
    if (VG_W < N) { VG_XA = ((const uint8_t *)input1)[VG_W]; VG_XB = ((const uint8_t *)input2)[VG_W]; }
#define VC_skinny128_xor VXORB_CONTRACT(16)
#define VE_skinny128_xor VXORB_ENTRY(16)
#define VC_skinny64_xor VXORB_CONTRACT(8)
#define VE_skinny64_xor VXORB_ENTRY(8)

/* big-endian counter += inc modulo 2^(8*N), every carry chain and wrap-around */
static vu128 VG_INC0;
#define VC_skinny128_inc_counter \
    __CPROVER_requires(__CPROVER_is_fresh(counter, 16) && inc <= 0xFF00 /* uint16_t accumulator: no overflow; call sites pass 1 */) \
    __CPROVER_assigns(__CPROVER_object_upto(counter, 16), VG_INC0) \
    __CPROVER_ensures(VBE128(counter) == VG_INC0 + inc)
#define VE_skinny128_inc_counter VG_INC0 = VBE128(counter);
#define VC_skinny64_inc_counter \
    __CPROVER_requires(__CPROVER_is_fresh(counter, 8) && inc <= 0xFF00) \
    __CPROVER_assigns(__CPROVER_object_upto(counter, 8), VG_INC0) \
    __CPROVER_ensures(VBE64(counter) == ((VG_INC0 + inc) & (vu128)0xFFFFFFFFFFFFFFFFULL))
#define VE_skinny64_inc_counter VG_INC0 = VBE64(counter);
#endif /* !VERIF_ROLE_CTR */

#endif
