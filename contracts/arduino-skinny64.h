/* Contracts for the Skinny-64 classes of the Arduino port (arduino/libraries/Skinny/Skinny64.cpp); see
 * arduino-skinny128.h.  Layout: schedule word s[j] == C library schedule[j].row[0] | schedule[j].row[1] << 16. */
#ifndef CONTRACTS_ARDUINO_SKINNY64_H
#define CONTRACTS_ARDUINO_SKINNY64_H
#include "skinny64-cipher.h"   /* the library's specification macros and ghost state (no code) */
#include "arduino-common.h"

#define A64_INV (__CPROVER_pointer_equals(s, sched) && r == VERIF_ARD_ROUNDS && VERIF_ARD_ROUNDS <= 40 && sizeof(sched) == 4u * VERIF_ARD_ROUNDS)
#define A64_SCHED __CPROVER_object_whole(sched)
#define A64_W(a, b) ((uint32_t)(uint16_t)(a) | ((uint32_t)(uint16_t)(b) << 16))
#define A64_SCHED_J_IS(a, b) (s[VG_J] == A64_W(a, b))
#define A64_SAVE_OLD VG64_OLD0 = (uint16_t)s[VG_J]; VG64_OLD1 = (uint16_t)(s[VG_J] >> 16);
#define A64_LOAD_RK(j) \
    VG_RK[0] = VCELL16((uint16_t)s[j], 0); VG_RK[1] = VCELL16((uint16_t)s[j], 1); VG_RK[2] = VCELL16((uint16_t)s[j], 2); VG_RK[3] = VCELL16((uint16_t)s[j], 3); \
    VG_RK[4] = VCELL16((uint16_t)(s[j] >> 16), 0); VG_RK[5] = VCELL16((uint16_t)(s[j] >> 16), 1); VG_RK[6] = VCELL16((uint16_t)(s[j] >> 16), 2); VG_RK[7] = VCELL16((uint16_t)(s[j] >> 16), 3);
#define A64_PTR_NORM __CPROVER_assert(schedule == s + (r - index), "ptr-norm: schedule cursor"); schedule = s + (r - index);

#define A64_BLOCK_CONTRACT \
    __CPROVER_requires(A64_INV) \
    __CPROVER_requires(__CPROVER_is_fresh(input, 8)) \
    __CPROVER_requires(__CPROVER_is_fresh(output, 8) || __CPROVER_pointer_equals(output, (void *)input)) \
    __CPROVER_assigns(__CPROVER_object_upto(output, 8)) \
    __CPROVER_assigns(__CPROVER_object_whole(VG_S), __CPROVER_object_whole(VG_RK)) \
    __CPROVER_ensures(V64_OUT_IS_GHOST(output))
#define VC_Skinny64__encryptBlock A64_BLOCK_CONTRACT
#define VE_Skinny64__encryptBlock V64_LOAD_STATE(input)
#define VL_Skinny64__encryptBlock_1 \
    __CPROVER_assigns(index, schedule, temp, __CPROVER_object_whole(&state), __CPROVER_object_whole(VG_S), __CPROVER_object_whole(VG_RK)) \
    __CPROVER_loop_invariant(index <= r) \
    __CPROVER_loop_invariant(schedule == s + (r - index)) \
    __CPROVER_loop_invariant(V64_CELLS_OK(VG_S)) \
    __CPROVER_loop_invariant(V64_STATE_IS_GHOST(state)) \
    __CPROVER_decreases(index)
#define VT_Skinny64__encryptBlock_1 { A64_LOAD_RK(r - index) spec64_round(VG_S, VG_RK); }
#define VC_Skinny64__decryptBlock A64_BLOCK_CONTRACT
#define VE_Skinny64__decryptBlock V64_LOAD_STATE(input)
#define VL_Skinny64__decryptBlock_1 \
    __CPROVER_assigns(index, schedule, temp, __CPROVER_object_whole(&state), __CPROVER_object_whole(VG_S), __CPROVER_object_whole(VG_RK)) \
    __CPROVER_loop_invariant(index <= r) \
    __CPROVER_loop_invariant(schedule == s + index - 1) \
    __CPROVER_loop_invariant(V64_CELLS_OK(VG_S)) \
    __CPROVER_loop_invariant(V64_STATE_IS_GHOST(state)) \
    __CPROVER_decreases(index)
#define VT_Skinny64__decryptBlock_1 { A64_LOAD_RK(index - 1) spec64_inv_round(VG_S, VG_RK); }

/* ---- setTK1 / xorTK1 ---- */
#define VC_Skinny64__setTK1 \
    __CPROVER_requires(A64_INV && VG_J < VERIF_ARD_ROUNDS) \
    __CPROVER_requires(V64_TK1ARG_VALID(key)) \
    __CPROVER_assigns(A64_SCHED, VG64_OLD0, VG64_OLD1, VG64_TK1_KEY, VG64_TK1_TWEAKED, VG64_TK1_N) \
    __CPROVER_ensures(A64_SCHED_J_IS(V64_TK1_EXP0(key, VG_J, tweaked), V64_TK1_EXP1(key, VG_J))) \
    __CPROVER_ensures(VG64_TK1_KEY == key && VG64_TK1_TWEAKED == (int)tweaked && VG64_TK1_N == __CPROVER_old(VG64_TK1_N) + 1)
#define VE_Skinny64__setTK1 A64_SAVE_OLD VG64_TK1_KEY = key; VG64_TK1_TWEAKED = tweaked; VG64_TK1_N = VG64_TK1_N + 1;
#define VL_Skinny64__setTK1_1 \
    __CPROVER_assigns(index, schedule, rc, __CPROVER_object_whole(&TK1), A64_SCHED) \
    __CPROVER_loop_invariant(index <= r) \
    __CPROVER_loop_invariant(schedule == s + (r - index)) \
    __CPROVER_loop_invariant(V64_TK_IS_KEYPERM(TK1, key, r - index)) \
    __CPROVER_loop_invariant(rc == (index == r ? 0 : SPEC_RC[r - index - 1])) \
    __CPROVER_loop_invariant((VG_J < (unsigned)(r - index)) ==> A64_SCHED_J_IS(V64_TK1_EXP0(key, VG_J, tweaked), V64_TK1_EXP1(key, VG_J))) \
    __CPROVER_loop_invariant((VG_J >= (unsigned)(r - index)) ==> A64_SCHED_J_IS(VG64_OLD0, VG64_OLD1)) \
    __CPROVER_decreases(index)
#define VT_Skinny64__setTK1_1 A64_PTR_NORM

#define VC_Skinny64__xorTK1 \
    __CPROVER_requires(A64_INV && VG_J < VERIF_ARD_ROUNDS) \
    __CPROVER_requires(V64_TK1ARG_VALID(key)) \
    __CPROVER_assigns(A64_SCHED, VG64_OLD0, VG64_OLD1) \
    __CPROVER_ensures(A64_SCHED_J_IS((uint16_t)__CPROVER_old(s[VG_J]) ^ V64_TK1ROW(key, VG_J, 0), \
                                     (uint16_t)(__CPROVER_old(s[VG_J]) >> 16) ^ V64_TK1ROW(key, VG_J, 1)))
#define VE_Skinny64__xorTK1 A64_SAVE_OLD
#define VL_Skinny64__xorTK1_1 \
    __CPROVER_assigns(index, schedule, __CPROVER_object_whole(&TK1), A64_SCHED) \
    __CPROVER_loop_invariant(index <= r) \
    __CPROVER_loop_invariant(schedule == s + (r - index)) \
    __CPROVER_loop_invariant(V64_TK_IS_KEYPERM(TK1, key, r - index)) \
    __CPROVER_loop_invariant((VG_J < (unsigned)(r - index)) ==> A64_SCHED_J_IS(VG64_OLD0 ^ V64_TK1ROW(key, VG_J, 0), VG64_OLD1 ^ V64_TK1ROW(key, VG_J, 1))) \
    __CPROVER_loop_invariant((VG_J >= (unsigned)(r - index)) ==> A64_SCHED_J_IS(VG64_OLD0, VG64_OLD1)) \
    __CPROVER_decreases(index)
#define VT_Skinny64__xorTK1_1 A64_PTR_NORM

/* ---- setTK2 / setTK3 (always a full 8-byte block) ---- */
#define A64_TKN_CONTRACT(SNAP, KEYV, SIZEV, NV) \
    __CPROVER_requires(A64_INV && VG_J < VERIF_ARD_ROUNDS) \
    __CPROVER_requires(__CPROVER_is_fresh(key, 8)) \
    __CPROVER_assigns(A64_SCHED, __CPROVER_object_whole(VG_T), __CPROVER_object_whole(SNAP), VG64_OLD0, VG64_OLD1, KEYV, SIZEV, NV) \
    __CPROVER_ensures(A64_SCHED_J_IS((uint16_t)__CPROVER_old(s[VG_J]) ^ VPACK16(SNAP, 0), (uint16_t)(__CPROVER_old(s[VG_J]) >> 16) ^ VPACK16(SNAP, 1))) \
    __CPROVER_ensures(KEYV == key && SIZEV == 8 && NV == __CPROVER_old(NV) + 1)
#define A64_TKN_ENTRY(KEYV, SIZEV, NV) V64_LOAD_PADDED(VG_T, key, 8) A64_SAVE_OLD KEYV = key; SIZEV = 8; NV = NV + 1;
#define A64_TKN_LOOP(TK, SNAP) \
    __CPROVER_assigns(index, schedule, __CPROVER_object_whole(&TK), A64_SCHED, __CPROVER_object_whole(VG_T), __CPROVER_object_whole(SNAP)) \
    __CPROVER_loop_invariant(index <= r) \
    __CPROVER_loop_invariant(schedule == s + (r - index)) \
    __CPROVER_loop_invariant(V64_CELLS_OK(VG_T)) \
    __CPROVER_loop_invariant(V64_TK_IS_GHOST(TK, VG_T)) \
    __CPROVER_loop_invariant((VG_J < (unsigned)(r - index)) ==> A64_SCHED_J_IS(VG64_OLD0 ^ VPACK16(SNAP, 0), VG64_OLD1 ^ VPACK16(SNAP, 1))) \
    __CPROVER_loop_invariant((VG_J >= (unsigned)(r - index)) ==> A64_SCHED_J_IS(VG64_OLD0, VG64_OLD1)) \
    __CPROVER_decreases(index)
#define VC_Skinny64__setTK2 A64_TKN_CONTRACT(VG64_SNAP2, VG64_TK2_KEY, VG64_TK2_SIZE, VG64_TK2_N)
#define VE_Skinny64__setTK2 A64_TKN_ENTRY(VG64_TK2_KEY, VG64_TK2_SIZE, VG64_TK2_N)
#define VL_Skinny64__setTK2_1 A64_TKN_LOOP(TK2, VG64_SNAP2)
#define VT_Skinny64__setTK2_1 A64_PTR_NORM if ((unsigned)(r - index) == VG_J) { V64_COPY8(VG64_SNAP2, VG_T) } spec64_tk_permute(VG_T); spec64_tk_lfsr2(VG_T);
#define VC_Skinny64__setTK3 A64_TKN_CONTRACT(VG64_SNAP3, VG64_TK3_KEY, VG64_TK3_SIZE, VG64_TK3_N)
#define VE_Skinny64__setTK3 A64_TKN_ENTRY(VG64_TK3_KEY, VG64_TK3_SIZE, VG64_TK3_N)
#define VL_Skinny64__setTK3_1 A64_TKN_LOOP(TK3, VG64_SNAP3)
#define VT_Skinny64__setTK3_1 A64_PTR_NORM if ((unsigned)(r - index) == VG_J) { V64_COPY8(VG64_SNAP3, VG_T) } spec64_tk_permute(VG_T); spec64_tk_lfsr3(VG_T);

#define VC_Skinny64__clear \
    __CPROVER_requires(A64_INV && VG_W < 4u * VERIF_ARD_ROUNDS) \
    __CPROVER_assigns(A64_SCHED) \
    __CPROVER_ensures(((const uint8_t *)sched)[VG_W] == 0)

/* ---- leaf setKey ---- */
#define A64_T_ZERO (t[0] == 0 && t[1] == 0 && t[2] == 0 && t[3] == 0 && t[4] == 0 && t[5] == 0 && t[6] == 0 && t[7] == 0)
#define A64_INNER_POST(key, key_size, tweak) \
    (r == V64_ROUNDS(key_size, tweak) && \
     A64_SCHED_J_IS(V64_INNER_ROW0(key, key_size, tweak), V64_INNER_ROW1(key, key_size, tweak)) && \
     (V64_HAS2(key_size, tweak) ==> (VG64_TK2_KEY == ((tweak) ? (const void *)(key) : (const void *)(VU8(key) + 8)) && VG64_TK2_SIZE == 8)) && \
     (V64_HAS3(key_size, tweak) ==> (VG64_TK3_KEY == ((tweak) ? (const void *)(VU8(key) + 8) : (const void *)(VU8(key) + 16)) && VG64_TK3_SIZE == 8)))
#ifdef VERIF_ARD_TWEAKED
#define A64_TWEAKPTR t
#define A64_OBJ A64_SCHED, __CPROVER_object_whole(t)
#define A64_T_ZERO_IF_TWEAKED A64_T_ZERO
#else
#define A64_TWEAKPTR ((const uint8_t *)0)
#define A64_OBJ A64_SCHED
#define A64_T_ZERO_IF_TWEAKED 1
#endif
#define A64_SETKEY_CONTRACT \
    __CPROVER_requires(A64_INV && VG_J < VERIF_ARD_ROUNDS) \
    __CPROVER_requires(len != VERIF_ARD_KEYLEN || __CPROVER_is_fresh(key, VERIF_ARD_KEYLEN)) \
    __CPROVER_assigns(len == VERIF_ARD_KEYLEN: A64_OBJ, V64_KEYGHOSTS) \
    __CPROVER_ensures(__CPROVER_return_value == (len == VERIF_ARD_KEYLEN)) \
    __CPROVER_ensures(__CPROVER_return_value ==> A64_T_ZERO_IF_TWEAKED) \
    __CPROVER_ensures(__CPROVER_return_value ==> A64_INNER_POST(key, VERIF_ARD_KEYLEN, A64_TWEAKPTR)) \
    __CPROVER_ensures(__CPROVER_return_value ==> (VG64_TK1_N == __CPROVER_old(VG64_TK1_N) + 1 && \
        VG64_TK2_N == __CPROVER_old(VG64_TK2_N) + (V64_HAS2(VERIF_ARD_KEYLEN, A64_TWEAKPTR) ? 1 : 0) && \
        VG64_TK3_N == __CPROVER_old(VG64_TK3_N) + (V64_HAS3(VERIF_ARD_KEYLEN, A64_TWEAKPTR) ? 1 : 0)))
#define VC_Skinny64_64__setKey A64_SETKEY_CONTRACT
#define VC_Skinny64_128__setKey A64_SETKEY_CONTRACT
#define VC_Skinny64_192__setKey A64_SETKEY_CONTRACT
#define VC_Skinny64_128_Tweaked__setKey A64_SETKEY_CONTRACT
#define VC_Skinny64_192_Tweaked__setKey A64_SETKEY_CONTRACT

#ifdef VERIF_ARD_TWEAKED
#define VC_Skinny64_Tweaked__resetTweak \
    __CPROVER_requires(A64_INV && VG_J < VERIF_ARD_ROUNDS) \
    __CPROVER_assigns(A64_OBJ, VG64_OLD0, VG64_OLD1, VG64_TK1_KEY, VG64_TK1_TWEAKED, VG64_TK1_N) \
    __CPROVER_ensures(A64_T_ZERO) \
    __CPROVER_ensures(A64_SCHED_J_IS(V64_TK1_EXP0(t, VG_J, 1), V64_TK1_EXP1(t, VG_J))) \
    __CPROVER_ensures(VG64_TK1_N == __CPROVER_old(VG64_TK1_N) + 1)

static uint16_t VGA64_KP0, VGA64_KP1;     /* key part of schedule word J at entry */
#define A64_VIEW0 ((uint16_t)((uint16_t)s[VG_J] ^ V64_TK1ROW(t, VG_J, 0)))
#define A64_VIEW1 ((uint16_t)((uint16_t)(s[VG_J] >> 16) ^ V64_TK1ROW(t, VG_J, 1)))
#define A64_T_IS(tw) \
    (t[0] == ((tw) ? VU8(tw)[0] : 0) && t[1] == ((tw) ? VU8(tw)[1] : 0) && t[2] == ((tw) ? VU8(tw)[2] : 0) && t[3] == ((tw) ? VU8(tw)[3] : 0) && \
     t[4] == ((tw) ? VU8(tw)[4] : 0) && t[5] == ((tw) ? VU8(tw)[5] : 0) && t[6] == ((tw) ? VU8(tw)[6] : 0) && t[7] == ((tw) ? VU8(tw)[7] : 0))
#define VC_Skinny64_Tweaked__setTweak \
    __CPROVER_requires(A64_INV && VG_J < VERIF_ARD_ROUNDS) \
    __CPROVER_requires(tweak == NULL || __CPROVER_is_fresh(tweak, 8)) \
    __CPROVER_assigns(len == 8: A64_OBJ) \
    __CPROVER_assigns(VG64_OLD0, VG64_OLD1, VGA64_KP0, VGA64_KP1) \
    __CPROVER_ensures(__CPROVER_return_value == (len == 8)) \
    __CPROVER_ensures(__CPROVER_return_value ==> A64_T_IS(tweak)) \
    __CPROVER_ensures(__CPROVER_return_value ==> (A64_VIEW0 == VGA64_KP0 && A64_VIEW1 == VGA64_KP1))
#define VE_Skinny64_Tweaked__setTweak VGA64_KP0 = A64_VIEW0; VGA64_KP1 = A64_VIEW1;

#define VC_Skinny64_Tweaked__clear \
    __CPROVER_requires(A64_INV && VG_W < 4u * VERIF_ARD_ROUNDS) \
    __CPROVER_assigns(A64_OBJ) \
    __CPROVER_ensures((VG_W < 8 ==> t[VG_W] == 0) && ((const uint8_t *)sched)[VG_W] == 0)
#endif

#endif
