/* Shared by the contracts of the Arduino port (C19). */
#ifndef CONTRACTS_ARDUINO_COMMON_H
#define CONTRACTS_ARDUINO_COMMON_H
#include "verif_common.h"
static size_t VG_W;        /* witness byte index (arbitrary) */

/* ---- clean(dest, size) of Crypto.cpp (body extracted into every TU): every byte zero, witness index VG_W ---- */
#define VC_clean \
    __CPROVER_requires(size <= 4096 && __CPROVER_is_fresh(dest, size)) \
    __CPROVER_assigns(__CPROVER_object_upto(dest, size)) \
    __CPROVER_ensures(VG_W < size ==> ((const uint8_t *)dest)[VG_W] == 0)
#define VE_clean size_t verif_v0 = size;
#define VL_clean_1 \
    __CPROVER_assigns(size, d, __CPROVER_object_upto(dest, verif_v0)) \
    __CPROVER_loop_invariant(size <= verif_v0) \
    __CPROVER_loop_invariant(d == (volatile uint8_t *)dest + (verif_v0 - size)) \
    __CPROVER_loop_invariant(VG_W < verif_v0 - size ==> ((const uint8_t *)dest)[VG_W] == 0) \
    __CPROVER_decreases(size)


#endif
