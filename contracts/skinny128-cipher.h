/* Contracts for src/skinny128-cipher.c (inserted at the instrumentation
 * points VC_/VE_/VL_/VT_...; see engine/instrument.py). */
#ifndef CONTRACTS_SKINNY128_CIPHER_H
#define CONTRACTS_SKINNY128_CIPHER_H
#include "verif_common.h"

/* validity of the 16-byte TK1 argument of set_tk1/xor_tk1.  In the jobs that REPLACE these two
   functions inside set_tweaked_key/set_tweak the argument is the tweak field of the very object that
   holds the schedule, which an is_fresh precondition (object granular) cannot describe; those jobs
   assert plain readability instead.  The enforce jobs prove the contract for a separate buffer; that
   it carries over to a disjoint byte range of the same object rests on the proved frame (writes:
   schedule region only) - listed as assumption 'byte-range locality'. */
#ifdef VERIF_ALIAS_KEY
#define V128_TK1ARG_VALID(key) __CPROVER_r_ok(key, 16)
#else
#define V128_TK1ARG_VALID(key) __CPROVER_is_fresh(key, 16)
#endif

#define V128_LOAD_STATE(p) \
    VG_S[0] = VU8(p)[0]; VG_S[1] = VU8(p)[1]; VG_S[2] = VU8(p)[2]; VG_S[3] = VU8(p)[3]; \
    VG_S[4] = VU8(p)[4]; VG_S[5] = VU8(p)[5]; VG_S[6] = VU8(p)[6]; VG_S[7] = VU8(p)[7]; \
    VG_S[8] = VU8(p)[8]; VG_S[9] = VU8(p)[9]; VG_S[10] = VU8(p)[10]; VG_S[11] = VU8(p)[11]; \
    VG_S[12] = VU8(p)[12]; VG_S[13] = VU8(p)[13]; VG_S[14] = VU8(p)[14]; VG_S[15] = VU8(p)[15];

#define V128_LOAD_RK(hc) \
    VG_RK[0] = VBYTE((hc).row[0], 0); VG_RK[1] = VBYTE((hc).row[0], 1); \
    VG_RK[2] = VBYTE((hc).row[0], 2); VG_RK[3] = VBYTE((hc).row[0], 3); \
    VG_RK[4] = VBYTE((hc).row[1], 0); VG_RK[5] = VBYTE((hc).row[1], 1); \
    VG_RK[6] = VBYTE((hc).row[1], 2); VG_RK[7] = VBYTE((hc).row[1], 3);

#define V128_OUT_IS_GHOST(out) \
    (VU8(out)[0] == VG_S[0] && VU8(out)[1] == VG_S[1] && VU8(out)[2] == VG_S[2] && VU8(out)[3] == VG_S[3] && \
     VU8(out)[4] == VG_S[4] && VU8(out)[5] == VG_S[5] && VU8(out)[6] == VG_S[6] && VU8(out)[7] == VG_S[7] && \
     VU8(out)[8] == VG_S[8] && VU8(out)[9] == VG_S[9] && VU8(out)[10] == VG_S[10] && VU8(out)[11] == VG_S[11] && \
     VU8(out)[12] == VG_S[12] && VU8(out)[13] == VG_S[13] && VU8(out)[14] == VG_S[14] && VU8(out)[15] == VG_S[15])

#define V128_STATE_IS_GHOST(st) \
    ((st).row[0] == VPACK32(VG_S, 0) && (st).row[1] == VPACK32(VG_S, 1) && \
     (st).row[2] == VPACK32(VG_S, 2) && (st).row[3] == VPACK32(VG_S, 3))

/* ------------------------------------------------------------------------
 * skinny128_ecb_encrypt: the ghost program is the specification
 *   G := cells(input); for i in 0..rounds-1: G := spec128_round(G, schedule[i])
 * and runs in lock-step with the real loop; output == G.
 * ---------------------------------------------------------------------- */
#define VC_skinny128_ecb_encrypt \
    __CPROVER_requires(__CPROVER_is_fresh(ks, sizeof(Skinny128Key_t))) \
    __CPROVER_requires(ks->rounds <= SKINNY128_MAX_ROUNDS) \
    __CPROVER_requires(__CPROVER_is_fresh(input, 16)) \
    __CPROVER_requires(__CPROVER_is_fresh(output, 16) || __CPROVER_pointer_equals(output, (void *)input)) \
    __CPROVER_assigns(__CPROVER_object_upto(output, 16)) \
    __CPROVER_assigns(__CPROVER_object_whole(VG_S), __CPROVER_object_whole(VG_RK)) \
    __CPROVER_ensures(V128_OUT_IS_GHOST(output))

#define VE_skinny128_ecb_encrypt V128_LOAD_STATE(input)

#define VL_skinny128_ecb_encrypt_1 \
    __CPROVER_assigns(index, schedule, temp, __CPROVER_object_whole(&state), \
                      __CPROVER_object_whole(VG_S), __CPROVER_object_whole(VG_RK)) \
    __CPROVER_loop_invariant(index <= ks->rounds) \
    __CPROVER_loop_invariant(schedule == ks->schedule + (ks->rounds - index)) \
    __CPROVER_loop_invariant(V128_STATE_IS_GHOST(state)) \
    __CPROVER_decreases(index)

#define VT_skinny128_ecb_encrypt_1 \
    { V128_LOAD_RK(ks->schedule[ks->rounds - index]) spec128_round(VG_S, VG_RK); }

/* ------------------------------------------------------------------------
 * skinny128_ecb_decrypt: ghost program
 *   G := cells(input); for i = rounds-1 down to 0: G := spec128_inv_round(G, schedule[i])
 * ---------------------------------------------------------------------- */
#define VC_skinny128_ecb_decrypt \
    __CPROVER_requires(__CPROVER_is_fresh(ks, sizeof(Skinny128Key_t))) \
    __CPROVER_requires(1 <= ks->rounds && ks->rounds <= SKINNY128_MAX_ROUNDS) \
    __CPROVER_requires(__CPROVER_is_fresh(input, 16)) \
    __CPROVER_requires(__CPROVER_is_fresh(output, 16) || __CPROVER_pointer_equals(output, (void *)input)) \
    __CPROVER_assigns(__CPROVER_object_upto(output, 16)) \
    __CPROVER_assigns(__CPROVER_object_whole(VG_S), __CPROVER_object_whole(VG_RK)) \
    __CPROVER_ensures(V128_OUT_IS_GHOST(output))

#define VE_skinny128_ecb_decrypt V128_LOAD_STATE(input)

#define VL_skinny128_ecb_decrypt_1 \
    __CPROVER_assigns(index, schedule, temp, __CPROVER_object_whole(&state), \
                      __CPROVER_object_whole(VG_S), __CPROVER_object_whole(VG_RK)) \
    __CPROVER_loop_invariant(index <= ks->rounds) \
    __CPROVER_loop_invariant(schedule == ks->schedule + index - 1) \
    __CPROVER_loop_invariant(V128_STATE_IS_GHOST(state)) \
    __CPROVER_decreases(index)

#define VT_skinny128_ecb_decrypt_1 \
    { V128_LOAD_RK(ks->schedule[index - 1]) spec128_inv_round(VG_S, VG_RK); }

/* ========================================================================
 * Tweakey schedule.  TK1 is specified in CLOSED FORM: after j applications of
 * the tweakey permutation, cell i holds key cell PT^j[i] (PT has order 16,
 * table SPEC_PTJ generated from the paper's PT).  TK2/TK3 are specified by the
 * ghost program  T := cells(key bytes ++ zeros); repeat { emit T[0..7];
 * T := LFSRk(PT(T)) }  run in lock-step; VG_SNAP2/3 is its value at the
 * arbitrary witness round VG_J.
 * ====================================================================== */
#define V128_KP(key, j, i) (VU8(key)[SPEC_PTJ[(j) & 15][(i)]])
#define V128_TK1ROW(key, j, r) \
    ((uint32_t)V128_KP(key, j, 4 * (r)) | ((uint32_t)V128_KP(key, j, 4 * (r) + 1) << 8) | \
     ((uint32_t)V128_KP(key, j, 4 * (r) + 2) << 16) | ((uint32_t)V128_KP(key, j, 4 * (r) + 3) << 24))
#define V128_TK1_EXP0(key, j, tweaked) \
    (V128_TK1ROW(key, j, 0) ^ (uint32_t)(SPEC_RC[(j)] & 0x0F) ^ ((tweaked) ? 0x00020000u : 0u))
#define V128_TK1_EXP1(key, j) (V128_TK1ROW(key, j, 1) ^ (uint32_t)(SPEC_RC[(j)] >> 4))

#define V128_TK_IS_GHOST(tk, g) ((tk).row[0] == VPACK32(g, 0) && (tk).row[1] == VPACK32(g, 1) && (tk).row[2] == VPACK32(g, 2) && (tk).row[3] == VPACK32(g, 3))
#define V128_T_IS_KEYPERM(g, key, j) ((g)[0] == V128_KP(key, j, 0) && (g)[1] == V128_KP(key, j, 1) && (g)[2] == V128_KP(key, j, 2) && (g)[3] == V128_KP(key, j, 3) && (g)[4] == V128_KP(key, j, 4) && (g)[5] == V128_KP(key, j, 5) && (g)[6] == V128_KP(key, j, 6) && (g)[7] == V128_KP(key, j, 7) && (g)[8] == V128_KP(key, j, 8) && (g)[9] == V128_KP(key, j, 9) && (g)[10] == V128_KP(key, j, 10) && (g)[11] == V128_KP(key, j, 11) && (g)[12] == V128_KP(key, j, 12) && (g)[13] == V128_KP(key, j, 13) && (g)[14] == V128_KP(key, j, 14) && (g)[15] == V128_KP(key, j, 15))
#define V128_LOAD_PADDED(g, key, n) (g)[0] = (0 < (n)) ? VU8(key)[0] : 0; (g)[1] = (1 < (n)) ? VU8(key)[1] : 0; (g)[2] = (2 < (n)) ? VU8(key)[2] : 0; (g)[3] = (3 < (n)) ? VU8(key)[3] : 0; (g)[4] = (4 < (n)) ? VU8(key)[4] : 0; (g)[5] = (5 < (n)) ? VU8(key)[5] : 0; (g)[6] = (6 < (n)) ? VU8(key)[6] : 0; (g)[7] = (7 < (n)) ? VU8(key)[7] : 0; (g)[8] = (8 < (n)) ? VU8(key)[8] : 0; (g)[9] = (9 < (n)) ? VU8(key)[9] : 0; (g)[10] = (10 < (n)) ? VU8(key)[10] : 0; (g)[11] = (11 < (n)) ? VU8(key)[11] : 0; (g)[12] = (12 < (n)) ? VU8(key)[12] : 0; (g)[13] = (13 < (n)) ? VU8(key)[13] : 0; (g)[14] = (14 < (n)) ? VU8(key)[14] : 0; (g)[15] = (15 < (n)) ? VU8(key)[15] : 0;
#define V128_COPY8(d, s) (d)[0] = (s)[0]; (d)[1] = (s)[1]; (d)[2] = (s)[2]; (d)[3] = (s)[3]; (d)[4] = (s)[4]; (d)[5] = (s)[5]; (d)[6] = (s)[6]; (d)[7] = (s)[7];
#define V128_UNPACK_PREFIX_OK(tk, g, index) (((index) > 4 * 0 ==> (tk).row[0] == VPACK32(g, 0)) && ((index) <= 4 * 0 ==> (tk).row[0] == 0) && ((index) > 4 * 1 ==> (tk).row[1] == VPACK32(g, 1)) && ((index) <= 4 * 1 ==> (tk).row[1] == 0) && ((index) > 4 * 2 ==> (tk).row[2] == VPACK32(g, 2)) && ((index) <= 4 * 2 ==> (tk).row[2] == 0) && ((index) > 4 * 3 ==> (tk).row[3] == VPACK32(g, 3)) && ((index) <= 4 * 3 ==> (tk).row[3] == 0))

/* ghost state of the tweakey contracts */
static uint8_t VG_SNAP2[8];        /* TK2 ghost cells 0..7 at witness round */
static uint8_t VG_SNAP3[8];        /* TK3 ghost cells 0..7 at witness round */
static uint32_t VG_OLD0, VG_OLD1;  /* schedule[VG_J] at function entry */
static const void *VG_TK1_KEY; static int VG_TK1_TWEAKED; static unsigned VG_TK1_N;
static const void *VG_TK2_KEY; static unsigned VG_TK2_SIZE; static unsigned VG_TK2_N;
static const void *VG_TK3_KEY; static unsigned VG_TK3_SIZE; static unsigned VG_TK3_N;

#define V128_SCHED_REGION(ks) __CPROVER_object_upto((void *)(ks)->schedule, sizeof((ks)->schedule))
#define V128_SAVE_OLD(ks) VG_OLD0 = (ks)->schedule[VG_J].row[0]; VG_OLD1 = (ks)->schedule[VG_J].row[1];
#define V128_SCHED_J_IS(ks, a, b) ((ks)->schedule[VG_J].row[0] == (a) && (ks)->schedule[VG_J].row[1] == (b))

/* ---- skinny128_set_tk1: only ever called with a full 16-byte block ---- */
#define VC_skinny128_set_tk1 \
    __CPROVER_requires(__CPROVER_is_fresh(ks, sizeof(Skinny128Key_t))) \
    __CPROVER_requires(ks->rounds <= SKINNY128_MAX_ROUNDS && VG_J < SKINNY128_MAX_ROUNDS) \
    __CPROVER_requires(key_size == SKINNY128_BLOCK_SIZE && V128_TK1ARG_VALID(key)) \
    __CPROVER_assigns(V128_SCHED_REGION(ks), __CPROVER_object_whole(VG_T), VG_OLD0, VG_OLD1, \
                      VG_TK1_KEY, VG_TK1_TWEAKED, VG_TK1_N) \
    __CPROVER_ensures(ks->rounds == __CPROVER_old(ks->rounds)) \
    __CPROVER_ensures(VG_J < ks->rounds ==> V128_SCHED_J_IS(ks, V128_TK1_EXP0(key, VG_J, tweaked), V128_TK1_EXP1(key, VG_J))) \
    __CPROVER_ensures(VG_J >= ks->rounds ==> V128_SCHED_J_IS(ks, __CPROVER_old(ks->schedule[VG_J].row[0]), __CPROVER_old(ks->schedule[VG_J].row[1]))) \
    __CPROVER_ensures(VG_TK1_KEY == key && VG_TK1_TWEAKED == tweaked && VG_TK1_N == __CPROVER_old(VG_TK1_N) + 1)

#define VE_skinny128_set_tk1 \
    V128_LOAD_PADDED(VG_T, key, 16) V128_SAVE_OLD(ks) \
    VG_TK1_KEY = key; VG_TK1_TWEAKED = tweaked; VG_TK1_N = VG_TK1_N + 1;

/* loop 1 (partial unpack) is unreachable under key_size == 16 but must still carry a
   contract: symex would otherwise unwind it without bound on the infeasible path */
#define VL_skinny128_set_tk1_1 V128_TKN_UNPACK_LOOP
#define V128_TK_IS_KEYPERM(tk, key, j) \
    ((tk).row[0] == V128_TK1ROW(key, j, 0) && (tk).row[1] == V128_TK1ROW(key, j, 1) && \
     (tk).row[2] == V128_TK1ROW(key, j, 2) && (tk).row[3] == V128_TK1ROW(key, j, 3))
#define VL_skinny128_set_tk1_2 \
    __CPROVER_assigns(index, rc, __CPROVER_object_whole(&tk), V128_SCHED_REGION(ks)) \
    __CPROVER_loop_invariant(index <= ks->rounds) \
    __CPROVER_loop_invariant(V128_TK_IS_KEYPERM(tk, key, index)) \
    __CPROVER_loop_invariant(rc == (index == 0 ? 0 : SPEC_RC[index - 1])) \
    __CPROVER_loop_invariant(VG_J < index ==> V128_SCHED_J_IS(ks, V128_TK1_EXP0(key, VG_J, tweaked), V128_TK1_EXP1(key, VG_J))) \
    __CPROVER_loop_invariant(VG_J >= index ==> V128_SCHED_J_IS(ks, VG_OLD0, VG_OLD1)) \
    __CPROVER_decreases(ks->rounds - index)

#define VT_skinny128_set_tk1_2

/* ---- skinny128_xor_tk1 ---- */
#define VC_skinny128_xor_tk1 \
    __CPROVER_requires(__CPROVER_is_fresh(ks, sizeof(Skinny128Key_t))) \
    __CPROVER_requires(ks->rounds <= SKINNY128_MAX_ROUNDS && VG_J < SKINNY128_MAX_ROUNDS) \
    __CPROVER_requires(V128_TK1ARG_VALID(key)) \
    __CPROVER_assigns(V128_SCHED_REGION(ks), __CPROVER_object_whole(VG_T), VG_OLD0, VG_OLD1) \
    __CPROVER_ensures(ks->rounds == __CPROVER_old(ks->rounds)) \
    __CPROVER_ensures(VG_J < ks->rounds ==> V128_SCHED_J_IS(ks, \
        __CPROVER_old(ks->schedule[VG_J].row[0]) ^ V128_TK1ROW(key, VG_J, 0), \
        __CPROVER_old(ks->schedule[VG_J].row[1]) ^ V128_TK1ROW(key, VG_J, 1))) \
    __CPROVER_ensures(VG_J >= ks->rounds ==> V128_SCHED_J_IS(ks, __CPROVER_old(ks->schedule[VG_J].row[0]), __CPROVER_old(ks->schedule[VG_J].row[1])))

#define VE_skinny128_xor_tk1 V128_LOAD_PADDED(VG_T, key, 16) V128_SAVE_OLD(ks)

#define VL_skinny128_xor_tk1_1 \
    __CPROVER_assigns(index, __CPROVER_object_whole(&tk), V128_SCHED_REGION(ks), __CPROVER_object_whole(VG_T)) \
    __CPROVER_loop_invariant(index <= ks->rounds) \
    __CPROVER_loop_invariant(V128_TK_IS_GHOST(tk, VG_T)) \
    __CPROVER_loop_invariant(V128_T_IS_KEYPERM(VG_T, key, index)) \
    __CPROVER_loop_invariant(VG_J < index ==> V128_SCHED_J_IS(ks, VG_OLD0 ^ V128_TK1ROW(key, VG_J, 0), VG_OLD1 ^ V128_TK1ROW(key, VG_J, 1))) \
    __CPROVER_loop_invariant(VG_J >= index ==> V128_SCHED_J_IS(ks, VG_OLD0, VG_OLD1)) \
    __CPROVER_decreases(ks->rounds - index)

#define VT_skinny128_xor_tk1_1 spec128_tk_permute(VG_T);

/* ---- skinny128_set_tk2 / set_tk3: key of 1..16 bytes, zero padded ---- */
#define V128_TKN_CONTRACT(SNAP, KEYV, SIZEV, NV) \
    __CPROVER_requires(__CPROVER_is_fresh(ks, sizeof(Skinny128Key_t))) \
    __CPROVER_requires(ks->rounds <= SKINNY128_MAX_ROUNDS && VG_J < SKINNY128_MAX_ROUNDS) \
    __CPROVER_requires(1 <= key_size && key_size <= SKINNY128_BLOCK_SIZE && __CPROVER_is_fresh(key, key_size)) \
    __CPROVER_assigns(V128_SCHED_REGION(ks), __CPROVER_object_whole(VG_T), __CPROVER_object_whole(SNAP), \
                      VG_OLD0, VG_OLD1, KEYV, SIZEV, NV) \
    __CPROVER_ensures(ks->rounds == __CPROVER_old(ks->rounds)) \
    __CPROVER_ensures(VG_J < ks->rounds ==> V128_SCHED_J_IS(ks, \
        __CPROVER_old(ks->schedule[VG_J].row[0]) ^ VPACK32(SNAP, 0), \
        __CPROVER_old(ks->schedule[VG_J].row[1]) ^ VPACK32(SNAP, 1))) \
    __CPROVER_ensures(VG_J >= ks->rounds ==> V128_SCHED_J_IS(ks, __CPROVER_old(ks->schedule[VG_J].row[0]), __CPROVER_old(ks->schedule[VG_J].row[1]))) \
    __CPROVER_ensures(KEYV == key && SIZEV == key_size && NV == __CPROVER_old(NV) + 1)

#define V128_TKN_ENTRY(KEYV, SIZEV, NV) \
    V128_LOAD_PADDED(VG_T, key, key_size) V128_SAVE_OLD(ks) KEYV = key; SIZEV = key_size; NV = NV + 1;

#define V128_TKN_UNPACK_LOOP \
    /* no explicit assigns clause: dfcc infers the loop's write set, so the contract does not name the
       incidental temporary `word` (a change that restructures the unpacking must fail on the invariant, not on a missing identifier) */ \
    __CPROVER_loop_invariant(index <= 16 && (index & 3) == 0) \
    __CPROVER_loop_invariant(V128_UNPACK_PREFIX_OK(tk, VG_T, index)) \
    __CPROVER_decreases(20 - index)

#define V128_TKN_MAIN_LOOP(SNAP) \
    __CPROVER_assigns(index, __CPROVER_object_whole(&tk), V128_SCHED_REGION(ks), __CPROVER_object_whole(VG_T), __CPROVER_object_whole(SNAP)) \
    __CPROVER_loop_invariant(index <= ks->rounds) \
    __CPROVER_loop_invariant(V128_TK_IS_GHOST(tk, VG_T)) \
    __CPROVER_loop_invariant(VG_J < index ==> V128_SCHED_J_IS(ks, VG_OLD0 ^ VPACK32(SNAP, 0), VG_OLD1 ^ VPACK32(SNAP, 1))) \
    __CPROVER_loop_invariant(VG_J >= index ==> V128_SCHED_J_IS(ks, VG_OLD0, VG_OLD1)) \
    __CPROVER_decreases(ks->rounds - index)

#define VC_skinny128_set_tk2 V128_TKN_CONTRACT(VG_SNAP2, VG_TK2_KEY, VG_TK2_SIZE, VG_TK2_N)
#define VE_skinny128_set_tk2 V128_TKN_ENTRY(VG_TK2_KEY, VG_TK2_SIZE, VG_TK2_N)
#define VL_skinny128_set_tk2_1 V128_TKN_UNPACK_LOOP
#define VL_skinny128_set_tk2_2 V128_TKN_MAIN_LOOP(VG_SNAP2)
#define VT_skinny128_set_tk2_2 \
    if (index == VG_J) { V128_COPY8(VG_SNAP2, VG_T) } spec128_tk_permute(VG_T); spec128_tk_lfsr2(VG_T);

#define VC_skinny128_set_tk3 V128_TKN_CONTRACT(VG_SNAP3, VG_TK3_KEY, VG_TK3_SIZE, VG_TK3_N)
#define VE_skinny128_set_tk3 V128_TKN_ENTRY(VG_TK3_KEY, VG_TK3_SIZE, VG_TK3_N)
#define VL_skinny128_set_tk3_1 V128_TKN_UNPACK_LOOP
#define VL_skinny128_set_tk3_2 V128_TKN_MAIN_LOOP(VG_SNAP3)
#define VT_skinny128_set_tk3_2 \
    if (index == VG_J) { V128_COPY8(VG_SNAP3, VG_T) } spec128_tk_permute(VG_T); spec128_tk_lfsr3(VG_T);

/* ========================================================================
 * skinny128_set_key_inner (callees set_tk1/2/3 replaced by their contracts):
 * round count from the key length, TK1 := key or tweak (with the tweak-domain
 * bit), the remaining key bytes to TK2 / TK3 (recorded in the ghost call log),
 * each called exactly once, schedule[J] = TK1_J ^ rc_J ^ TK2_J ^ TK3_J.
 * ====================================================================== */
#define V128_HAS2(key_size, tweak) ((tweak) ? 1 : ((key_size) > 16))
#define V128_HAS3(key_size, tweak) ((tweak) ? ((key_size) > 16) : ((key_size) > 32))
#define V128_ROUNDS(key_size, tweak) \
    ((tweak) ? ((key_size) == 16 ? 48u : 56u) : ((key_size) == 16 ? 40u : (key_size) <= 32 ? 48u : 56u))
#define V128_MIN16(x) ((x) < 16 ? (x) : 16)
#define V128_INNER_ROW0(key, key_size, tweak) \
    (((tweak) ? V128_TK1_EXP0(tweak, VG_J, 1) : V128_TK1_EXP0(key, VG_J, 0)) ^ \
     (V128_HAS2(key_size, tweak) ? VPACK32(VG_SNAP2, 0) : 0u) ^ (V128_HAS3(key_size, tweak) ? VPACK32(VG_SNAP3, 0) : 0u))
#define V128_INNER_ROW1(key, key_size, tweak) \
    (((tweak) ? V128_TK1_EXP1(tweak, VG_J) : V128_TK1_EXP1(key, VG_J)) ^ \
     (V128_HAS2(key_size, tweak) ? VPACK32(VG_SNAP2, 1) : 0u) ^ (V128_HAS3(key_size, tweak) ? VPACK32(VG_SNAP3, 1) : 0u))
#define V128_INNER_POST(ks, key, key_size, tweak) \
    ((ks)->rounds == V128_ROUNDS(key_size, tweak) && \
     (VG_J < (ks)->rounds ==> V128_SCHED_J_IS(ks, V128_INNER_ROW0(key, key_size, tweak), V128_INNER_ROW1(key, key_size, tweak))) && \
     (V128_HAS2(key_size, tweak) ==> (VG_TK2_KEY == ((tweak) ? (const void *)(key) : (const void *)(VU8(key) + 16)) && \
                                    VG_TK2_SIZE == ((tweak) ? V128_MIN16(key_size) : V128_MIN16((key_size) - 16)))) && \
     (V128_HAS3(key_size, tweak) ==> (VG_TK3_KEY == ((tweak) ? (const void *)(VU8(key) + 16) : (const void *)(VU8(key) + 32)) && \
                                    VG_TK3_SIZE == ((tweak) ? (key_size) - 16 : (key_size) - 32))))
#define V128_KEYGHOSTS \
    __CPROVER_object_whole(VG_T), __CPROVER_object_whole(VG_SNAP2), __CPROVER_object_whole(VG_SNAP3), VG_OLD0, VG_OLD1, \
    VG_TK1_KEY, VG_TK1_TWEAKED, VG_TK1_N, VG_TK2_KEY, VG_TK2_SIZE, VG_TK2_N, VG_TK3_KEY, VG_TK3_SIZE, VG_TK3_N

#define VC_skinny128_set_key_inner \
    __CPROVER_requires(__CPROVER_is_fresh(ks, sizeof(Skinny128Key_t)) && VG_J < SKINNY128_MAX_ROUNDS) \
    __CPROVER_requires(16 <= key_size && key_size <= (tweak ? 32 : 48) && __CPROVER_is_fresh(key, key_size)) \
    __CPROVER_requires(tweak == NULL || __CPROVER_is_fresh(tweak, 16)) \
    __CPROVER_assigns(ks->rounds, V128_SCHED_REGION(ks), V128_KEYGHOSTS) \
    __CPROVER_ensures(V128_INNER_POST(ks, key, key_size, tweak)) \
    __CPROVER_ensures(VG_TK1_N == __CPROVER_old(VG_TK1_N) + 1) \
    __CPROVER_ensures(VG_TK2_N == __CPROVER_old(VG_TK2_N) + (V128_HAS2(key_size, tweak) ? 1 : 0)) \
    __CPROVER_ensures(VG_TK3_N == __CPROVER_old(VG_TK3_N) + (V128_HAS3(key_size, tweak) ? 1 : 0))

/* ---- skinny128_set_key (set_key_inner replaced by its contract) ---- */
#define V128_SETKEY_OK(ks, key, size) ((ks) != NULL && (key) != NULL && (size) >= 16 && (size) <= 48)
#define VC_skinny128_set_key \
    __CPROVER_requires(ks == NULL || __CPROVER_is_fresh(ks, sizeof(Skinny128Key_t))) \
    __CPROVER_requires(key == NULL || __CPROVER_is_fresh(key, (size <= 64) ? size : 64)) \
    __CPROVER_requires(VG_J < SKINNY128_MAX_ROUNDS) \
    __CPROVER_assigns(V128_SETKEY_OK(ks, key, size): ks->rounds, V128_SCHED_REGION(ks), V128_KEYGHOSTS) \
    __CPROVER_ensures(__CPROVER_return_value == (V128_SETKEY_OK(ks, key, size) ? 1 : 0)) \
    __CPROVER_ensures(__CPROVER_return_value == 1 ==> V128_INNER_POST(ks, key, size, (const void *)0))

/* ---- skinny128_set_tweaked_key: set_key_inner and set_tk1 inlined (the tweak lies
 *      in the same object as the schedule, so is_fresh-based callee contracts cannot
 *      be used for them); set_tk2/set_tk3 replaced by their contracts ---- */
#define V128_TWEAK_ZERO(ks) \
    ((ks)->tweak[0] == 0 && (ks)->tweak[1] == 0 && (ks)->tweak[2] == 0 && (ks)->tweak[3] == 0 && \
     (ks)->tweak[4] == 0 && (ks)->tweak[5] == 0 && (ks)->tweak[6] == 0 && (ks)->tweak[7] == 0 && \
     (ks)->tweak[8] == 0 && (ks)->tweak[9] == 0 && (ks)->tweak[10] == 0 && (ks)->tweak[11] == 0 && \
     (ks)->tweak[12] == 0 && (ks)->tweak[13] == 0 && (ks)->tweak[14] == 0 && (ks)->tweak[15] == 0)
#define V128_SETTKEY_OK(ks, key, size) ((ks) != NULL && (key) != NULL && (size) >= 16 && (size) <= 32)
#define VC_skinny128_set_tweaked_key \
    __CPROVER_requires(ks == NULL || __CPROVER_is_fresh(ks, sizeof(Skinny128TweakedKey_t))) \
    __CPROVER_requires(key == NULL || __CPROVER_is_fresh(key, (key_size <= 64) ? key_size : 64)) \
    __CPROVER_requires(VG_J < SKINNY128_MAX_ROUNDS) \
    __CPROVER_assigns(V128_SETTKEY_OK(ks, key, key_size): __CPROVER_object_upto((void *)ks, sizeof(Skinny128TweakedKey_t)), V128_KEYGHOSTS) \
    __CPROVER_ensures(__CPROVER_return_value == (V128_SETTKEY_OK(ks, key, key_size) ? 1 : 0)) \
    __CPROVER_ensures(__CPROVER_return_value == 1 ==> V128_TWEAK_ZERO(ks)) \
    __CPROVER_ensures(__CPROVER_return_value == 1 ==> V128_INNER_POST(&ks->ks, key, key_size, ks->tweak))

/* ---- skinny128_set_tweak (C04): abstract view of a tweakable schedule at witness round J:
 *        KP_J := schedule[J] ^ TK1_J(stored tweak)      (the key part)
 *      the call leaves KP_J unchanged and stores tweak' = new bytes ++ zeros, for every
 *      prior tweak: the post-state depends only on (key part, new tweak).
 *      xor_tk1 is inlined with its loop contract (same-object reason as above). ---- */
static uint32_t VG_KP0, VG_KP1;     /* key part of schedule[J] at entry */
#define V128_VIEW0(ks) ((ks)->ks.schedule[VG_J].row[0] ^ V128_TK1ROW((ks)->tweak, VG_J, 0))
#define V128_VIEW1(ks) ((ks)->ks.schedule[VG_J].row[1] ^ V128_TK1ROW((ks)->tweak, VG_J, 1))
#define V128_SETTWEAK_OK(ks, size) ((ks) != NULL && (size) >= 1 && (size) <= 16)
#define V128_TWEAK_IS_PADDED(ks, tw, n) \
    ((ks)->tweak[0] == ((tw) && 0 < (n) ? VU8(tw)[0] : 0) && (ks)->tweak[1] == ((tw) && 1 < (n) ? VU8(tw)[1] : 0) && \
     (ks)->tweak[2] == ((tw) && 2 < (n) ? VU8(tw)[2] : 0) && (ks)->tweak[3] == ((tw) && 3 < (n) ? VU8(tw)[3] : 0) && \
     (ks)->tweak[4] == ((tw) && 4 < (n) ? VU8(tw)[4] : 0) && (ks)->tweak[5] == ((tw) && 5 < (n) ? VU8(tw)[5] : 0) && \
     (ks)->tweak[6] == ((tw) && 6 < (n) ? VU8(tw)[6] : 0) && (ks)->tweak[7] == ((tw) && 7 < (n) ? VU8(tw)[7] : 0) && \
     (ks)->tweak[8] == ((tw) && 8 < (n) ? VU8(tw)[8] : 0) && (ks)->tweak[9] == ((tw) && 9 < (n) ? VU8(tw)[9] : 0) && \
     (ks)->tweak[10] == ((tw) && 10 < (n) ? VU8(tw)[10] : 0) && (ks)->tweak[11] == ((tw) && 11 < (n) ? VU8(tw)[11] : 0) && \
     (ks)->tweak[12] == ((tw) && 12 < (n) ? VU8(tw)[12] : 0) && (ks)->tweak[13] == ((tw) && 13 < (n) ? VU8(tw)[13] : 0) && \
     (ks)->tweak[14] == ((tw) && 14 < (n) ? VU8(tw)[14] : 0) && (ks)->tweak[15] == ((tw) && 15 < (n) ? VU8(tw)[15] : 0))
#define VC_skinny128_set_tweak \
    __CPROVER_requires(ks == NULL || __CPROVER_is_fresh(ks, sizeof(Skinny128TweakedKey_t))) \
    __CPROVER_requires(ks == NULL || ks->ks.rounds <= SKINNY128_MAX_ROUNDS) \
    __CPROVER_requires(tweak == NULL || __CPROVER_is_fresh(tweak, (tweak_size <= 16) ? tweak_size : 16)) \
    __CPROVER_requires(VG_J < SKINNY128_MAX_ROUNDS) \
    __CPROVER_assigns(V128_SETTWEAK_OK(ks, tweak_size): __CPROVER_object_upto((void *)ks->ks.schedule, sizeof(ks->ks.schedule)), \
                      __CPROVER_object_upto(ks->tweak, 16)) \
    __CPROVER_assigns(__CPROVER_object_whole(VG_T), VG_OLD0, VG_OLD1, VG_KP0, VG_KP1) \
    __CPROVER_ensures(__CPROVER_return_value == (V128_SETTWEAK_OK(ks, tweak_size) ? 1 : 0)) \
    __CPROVER_ensures(__CPROVER_return_value == 1 ==> ks->ks.rounds == __CPROVER_old(ks->ks.rounds)) \
    __CPROVER_ensures(__CPROVER_return_value == 1 ==> V128_TWEAK_IS_PADDED(ks, tweak, tweak_size)) \
    __CPROVER_ensures((__CPROVER_return_value == 1 && VG_J < ks->ks.rounds) ==> (V128_VIEW0(ks) == VG_KP0 && V128_VIEW1(ks) == VG_KP1))
#define VE_skinny128_set_tweak \
    if (ks) { VG_KP0 = V128_VIEW0(ks); VG_KP1 = V128_VIEW1(ks); }

#endif
