/* Contracts for src/skinny128-cipher.c (inserted at the instrumentation
 * points VC_/VE_/VL_/VT_...; see engine/instrument.py). */
#ifndef CONTRACTS_SKINNY128_CIPHER_H
#define CONTRACTS_SKINNY128_CIPHER_H
#include "verif_common.h"

#define V128_LOAD_STATE(p) \
    VG_S[0] = VU8(p)[0]; VG_S[1] = VU8(p)[1]; VG_S[2] = VU8(p)[2]; VG_S[3] = VU8(p)[3]; \
    VG_S[4] = VU8(p)[4]; VG_S[5] = VU8(p)[5]; VG_S[6] = VU8(p)[6]; VG_S[7] = VU8(p)[7]; \
    VG_S[8] = VU8(p)[8]; VG_S[9] = VU8(p)[9]; VG_S[10] = VU8(p)[10]; VG_S[11] = VU8(p)[11]; \
    VG_S[12] = VU8(p)[12]; VG_S[13] = VU8(p)[13]; VG_S[14] = VU8(p)[14]; VG_S[15] = VU8(p)[15];

#define V128_LOAD_RK(hc) \
    VG_RK[0] = VBYTE((hc).row[0], 0); VG_RK[1] = VBYTE((hc).row[0], 1); \
    VG_RK[2] = VBYTE((hc).row[0], 2); VG_RK[3] = VBYTE((hc).row[0], 3); \
    VG_RK[4] = VBYTE((hc).row[1], 0); VG_RK[5] = VBYTE((hc).row[1], 1); \
    VG_RK[6] = VBYTE((hc).row[1], 2); VG_RK[7] = VBYTE((hc).row[1], 3);

#define V128_OUT_IS_GHOST(out) \
    (VU8(out)[0] == VG_S[0] && VU8(out)[1] == VG_S[1] && VU8(out)[2] == VG_S[2] && VU8(out)[3] == VG_S[3] && \
     VU8(out)[4] == VG_S[4] && VU8(out)[5] == VG_S[5] && VU8(out)[6] == VG_S[6] && VU8(out)[7] == VG_S[7] && \
     VU8(out)[8] == VG_S[8] && VU8(out)[9] == VG_S[9] && VU8(out)[10] == VG_S[10] && VU8(out)[11] == VG_S[11] && \
     VU8(out)[12] == VG_S[12] && VU8(out)[13] == VG_S[13] && VU8(out)[14] == VG_S[14] && VU8(out)[15] == VG_S[15])

#define V128_STATE_IS_GHOST(st) \
    ((st).row[0] == VPACK32(VG_S, 0) && (st).row[1] == VPACK32(VG_S, 1) && \
     (st).row[2] == VPACK32(VG_S, 2) && (st).row[3] == VPACK32(VG_S, 3))

/* ------------------------------------------------------------------------
 * skinny128_ecb_encrypt: the ghost program is the specification
 *   G := cells(input); for i in 0..rounds-1: G := spec128_round(G, schedule[i])
 * and runs in lock-step with the real loop; output == G.
 * ---------------------------------------------------------------------- */
#define VC_skinny128_ecb_encrypt \
    __CPROVER_requires(__CPROVER_is_fresh(ks, sizeof(Skinny128Key_t))) \
    __CPROVER_requires(ks->rounds <= SKINNY128_MAX_ROUNDS) \
    __CPROVER_requires(__CPROVER_is_fresh(input, 16)) \
    __CPROVER_requires(__CPROVER_is_fresh(output, 16) || __CPROVER_pointer_equals(output, (void *)input)) \
    __CPROVER_assigns(__CPROVER_object_upto(output, 16)) \
    __CPROVER_assigns(__CPROVER_object_whole(VG_S), __CPROVER_object_whole(VG_RK)) \
    __CPROVER_ensures(V128_OUT_IS_GHOST(output))

#define VE_skinny128_ecb_encrypt V128_LOAD_STATE(input)

#define VL_skinny128_ecb_encrypt_1 \
    __CPROVER_assigns(index, schedule, temp, __CPROVER_object_whole(&state), \
                      __CPROVER_object_whole(VG_S), __CPROVER_object_whole(VG_RK)) \
    __CPROVER_loop_invariant(index <= ks->rounds) \
    __CPROVER_loop_invariant(schedule == ks->schedule + (ks->rounds - index)) \
    __CPROVER_loop_invariant(V128_STATE_IS_GHOST(state)) \
    __CPROVER_decreases(index)

#define VT_skinny128_ecb_encrypt_1 \
    { V128_LOAD_RK(ks->schedule[ks->rounds - index]) spec128_round(VG_S, VG_RK); }

/* ------------------------------------------------------------------------
 * skinny128_ecb_decrypt: ghost program
 *   G := cells(input); for i = rounds-1 down to 0: G := spec128_inv_round(G, schedule[i])
 * ---------------------------------------------------------------------- */
#define VC_skinny128_ecb_decrypt \
    __CPROVER_requires(__CPROVER_is_fresh(ks, sizeof(Skinny128Key_t))) \
    __CPROVER_requires(1 <= ks->rounds && ks->rounds <= SKINNY128_MAX_ROUNDS) \
    __CPROVER_requires(__CPROVER_is_fresh(input, 16)) \
    __CPROVER_requires(__CPROVER_is_fresh(output, 16) || __CPROVER_pointer_equals(output, (void *)input)) \
    __CPROVER_assigns(__CPROVER_object_upto(output, 16)) \
    __CPROVER_assigns(__CPROVER_object_whole(VG_S), __CPROVER_object_whole(VG_RK)) \
    __CPROVER_ensures(V128_OUT_IS_GHOST(output))

#define VE_skinny128_ecb_decrypt V128_LOAD_STATE(input)

#define VL_skinny128_ecb_decrypt_1 \
    __CPROVER_assigns(index, schedule, temp, __CPROVER_object_whole(&state), \
                      __CPROVER_object_whole(VG_S), __CPROVER_object_whole(VG_RK)) \
    __CPROVER_loop_invariant(index <= ks->rounds) \
    __CPROVER_loop_invariant(schedule == ks->schedule + index - 1) \
    __CPROVER_loop_invariant(V128_STATE_IS_GHOST(state)) \
    __CPROVER_decreases(index)

#define VT_skinny128_ecb_decrypt_1 \
    { V128_LOAD_RK(ks->schedule[index - 1]) spec128_inv_round(VG_S, VG_RK); }

#endif
