#!/usr/bin/env python3
"""Layer A contracts for the vector block functions (C05, C06, C07, C03): for an ARBITRARY
witness lane VG_L the lane's block goes through the same ghost program (spec round in lock-step)
as the scalar cipher: lane L of the output == E_spec / D_spec(schedule, lane L of the input).
Generated for the parallel-ECB vector files and (appended by gen_ctr_simd.py) for the CTR
ecb_encrypt_four/eight functions."""
import os

HERE = os.path.dirname(os.path.abspath(__file__))


def cells_from_bytes(bexpr, B):
    """ghost load of B block bytes (expression template with %d) into VG_S"""
    if B == 16:
        return " ".join("VG_S[%d] = %s;" % (i, bexpr % i) for i in range(16))
    return " ".join("VG_S[%d] = VHI(%s); VG_S[%d] = VLO(%s);" % (2 * i, bexpr % i, 2 * i + 1, bexpr % i) for i in range(8))


def out_is_ghost(oexpr, B, g="VG_S"):
    if B == 16:
        return " && ".join("%s == %s[%d]" % (oexpr % i, g, i) for i in range(16))
    return " && ".join("%s == (uint8_t)((%s[%d] << 4) | (%s[%d] & 0xF))" % (oexpr % i, g, 2 * i, g, 2 * i + 1) for i in range(8))


def skinny_vec(fn, direction, B, LANES, inkind, V):
    """contract macros for one skinny vector function"""
    n = "128" if B == 16 else "64"
    pack = "VPACK32" if B == 16 else "VPACK16"
    keyt = "Skinny%sKey_t" % n
    maxr = "SKINNY%s_MAX_ROUNDS" % n
    nbytes = B * LANES
    if inkind == "bytes":
        inb = "VU8(input)[%d * VG_L + %%d]" % B
        infresh = "__CPROVER_is_fresh(input, %d)" % nbytes
        outreq = "__CPROVER_is_fresh(output, %d) || __CPROVER_pointer_equals(output, (void *)input)" % nbytes
    else:
        inb = "%s_LB(input, VG_L, %%d)" % V
        infresh = "__CPROVER_is_fresh(input, %d)" % (B * LANES)
        outreq = "__CPROVER_is_fresh(output, %d)" % nbytes
    outb = "VU8(output)[%d * VG_L + %%d]" % B
    cellsok = "" if B == 16 else "    __CPROVER_loop_invariant(V64_CELLS_OK(VG_S)) \\\n"
    rk = "V%s_LOAD_RK" % n
    if direction == "enc":
        rreq = "ks->rounds <= %s" % maxr
        sched = "schedule == ks->schedule + (ks->rounds - index)"
        step = "{ %s(ks->schedule[ks->rounds - index]) spec%s_round(VG_S, VG_RK); }" % (rk, n)
    else:
        rreq = "1 <= ks->rounds && ks->rounds <= %s" % maxr
        sched = "schedule == ks->schedule + index - 1"
        step = "{ %s(ks->schedule[index - 1]) spec%s_inv_round(VG_S, VG_RK); }" % (rk, n)
    o = []
    o.append("#define VC_%s \\" % fn)
    o.append("    __CPROVER_requires(__CPROVER_is_fresh(ks, sizeof(%s)) && %s) \\" % (keyt, rreq))
    o.append("    __CPROVER_requires(%s) \\" % infresh)
    o.append("    __CPROVER_requires(%s) \\" % outreq)
    o.append("    __CPROVER_requires(VG_L >= 0 && VG_L < %d) \\" % LANES)
    o.append("    __CPROVER_assigns(__CPROVER_object_upto((uint8_t *)output, %d), __CPROVER_object_whole(VG_S), __CPROVER_object_whole(VG_RK)) \\" % nbytes)
    o.append("    __CPROVER_ensures(%s)" % out_is_ghost(outb, B))
    o.append("#define VE_%s %s" % (fn, cells_from_bytes(inb, B)))
    o.append("#define VL_%s_1 \\" % fn)
    o.append("    __CPROVER_assigns(index, schedule, temp, row0, row1, row2, row3, __CPROVER_object_whole(VG_S), __CPROVER_object_whole(VG_RK)) \\")
    o.append("    __CPROVER_loop_invariant(index <= ks->rounds) \\")
    o.append("    __CPROVER_loop_invariant(%s) \\" % sched)
    if cellsok:
        o.append(cellsok.rstrip("\n"))
    o.append("    __CPROVER_loop_invariant(row0[VG_L] == %s(VG_S, 0) && row1[VG_L] == %s(VG_S, 1) && row2[VG_L] == %s(VG_S, 2) && row3[VG_L] == %s(VG_S, 3)) \\" % (pack, pack, pack, pack))
    o.append("    __CPROVER_decreases(index)")
    o.append("#define VT_%s_1 %s" % (fn, step))
    return "\n".join(o) + "\n"


def mantis_vec(fn, inkind, V, tweakvar):
    """mantis vector function: lane L under tweak L (parallel) or under the stored tweak (CTR)"""
    if inkind == "bytes":
        inb = "VU8(input)[8 * VG_L + %d]"
        infresh = "__CPROVER_is_fresh(input, 64) && __CPROVER_is_fresh(tweak, 64)"
        outreq = "__CPROVER_is_fresh(output, 64) || __CPROVER_pointer_equals(output, (void *)input)"
        twload = " ".join("VG_T[%d] = VHI(VU8(tweak)[8 * VG_L + %d]); VG_T[%d] = VLO(VU8(tweak)[8 * VG_L + %d]);" % (2 * i, i, 2 * i + 1, i) for i in range(8))
        twinv = " && ".join("%s.row[%d][VG_L] == VPACK16(VG_T, %d)" % (tweakvar, r, r) for r in range(4))
    else:
        inb = V + "_LB(input, VG_L, %d)"
        infresh = "__CPROVER_is_fresh(input, 64)"
        outreq = "__CPROVER_is_fresh(output, 64)"
        twload = "VM_LOAD_CELLS(VG_T, ks->tweak)"
        twinv = "VM_IS_GHOST(%s, VG_T)" % tweakvar
    outb = "VU8(output)[8 * VG_L + %d]"
    stinv = " && ".join("state.row[%d][VG_L] == VPACK16(VG_S, %d)" % (r, r) for r in range(4))
    o = []
    o.append("#define VC_%s \\" % fn)
    o.append("    __CPROVER_requires(__CPROVER_is_fresh(ks, sizeof(MantisKey_t)) && ks->rounds <= MANTIS_MAX_ROUNDS) \\")
    o.append("    __CPROVER_requires(%s) \\" % infresh)
    o.append("    __CPROVER_requires(%s) \\" % outreq)
    o.append("    __CPROVER_requires(VG_L >= 0 && VG_L < 8) \\")
    o.append("    __CPROVER_assigns(__CPROVER_object_upto((uint8_t *)output, 64), VM_GHOSTS) \\")
    o.append("    __CPROVER_ensures(%s)" % out_is_ghost(outb, 8))
    o.append("#define VE_%s \\" % fn)
    o.append("    %s %s \\" % (cells_from_bytes(inb, 8), twload))
    o.append("    VM_LOAD_CELLS(VGM_K0, ks->k0) VM_LOAD_CELLS(VGM_K0P, ks->k0prime) VM_LOAD_CELLS(VGM_K1, ks->k1) VM_XOR_ALPHA(VGM_K1A, VGM_K1) \\")
    o.append("    specm_xor(VG_S, VGM_K0); specm_xor(VG_S, VGM_K1); specm_xor(VG_S, VG_T);")
    for (k, rinv, k1inv, step) in ((1, "8 * (ks->rounds - index)", "", "VM_FWD_STEP"), (2, "8 * index", " && VM_IS_GHOST(k1, VGM_K1A)", "VM_BWD_STEP")):
        o.append("#define VL_%s_%d \\" % (fn, k))
        o.append("    __CPROVER_assigns(index, r, __CPROVER_object_whole(&state), __CPROVER_object_whole(&%s), __CPROVER_object_whole(VG_S), __CPROVER_object_whole(VG_T)) \\" % tweakvar)
        o.append("    __CPROVER_loop_invariant(index <= ks->rounds) \\")
        o.append("    __CPROVER_loop_invariant((const uint8_t *)r == (const uint8_t *)rc + %s) \\" % rinv)
        o.append("    __CPROVER_loop_invariant(VM_CELLS_OK(VG_S) && VM_CELLS_OK(VG_T)) \\")
        o.append("    __CPROVER_loop_invariant(%s && %s%s) \\" % (stinv, twinv, k1inv))
        o.append("    __CPROVER_decreases(index)")
        o.append("#define VT_%s_%d %s" % (fn, k, step))
    o.append("#define VP_%s_2 VM_MIDDLE" % fn)
    o.append("#define VX_%s_2 VM_FINAL" % fn)
    return "\n".join(o) + "\n"


def parallel_header(fname, guard, cipherhdr, body):
    return ("/* GENERATED by contracts/gen_vec.py - layer A contracts for src/%s.c */\n#ifndef CONTRACTS_%s_H\n#define CONTRACTS_%s_H\n"
            "#include \"%s\"\nstatic int VG_L;   /* witness lane */\n%s\n#endif\n" % (fname, guard, guard, cipherhdr, body))


HARNESS = '''/* GENERATED by contracts/gen_vec.py - harness TU for src/%(file)s.c */
#include "%(pubhdr)s"
#include "contracts/%(file)s.h"
#include "verif_defaults.h"
#include "src/%(file)s.c"
%(entries)s
'''


def main():
    files = [
        ("skinny128-parallel-vec128", "skinny128-cipher.h", 16, 4, [("_skinny128_parallel_encrypt_vec128", "enc"), ("_skinny128_parallel_decrypt_vec128", "dec")]),
        ("skinny128-parallel-vec256", "skinny128-cipher.h", 16, 8, [("_skinny128_parallel_encrypt_vec256", "enc"), ("_skinny128_parallel_decrypt_vec256", "dec")]),
        ("skinny64-parallel-vec128", "skinny64-cipher.h", 8, 8, [("_skinny64_parallel_encrypt_vec128", "enc"), ("_skinny64_parallel_decrypt_vec128", "dec")]),
    ]
    for (f, ch, B, LANES, fns) in files:
        body = "".join(skinny_vec(fn, d, B, LANES, "bytes", None) for fn, d in fns)
        open(os.path.join(HERE, f + ".h"), "w").write(parallel_header(f, f.upper().replace("-", "_"), ch, body))
        keyt = "Skinny128Key_t" if B == 16 else "Skinny64Key_t"
        ent = "\n".join("void h_%s(void) { void *o; const void *i; const %s *ks; %s(o, i, ks); VCANARY(); }" % (d, keyt, fn) for fn, d in fns)
        open(os.path.join(HERE, "..", "harness", "h_%s.c" % f.replace("-", "_")), "w").write(
            HARNESS % dict(file=f, pubhdr=ch, entries=ent))
    f = "mantis-parallel-vec128"
    body = mantis_vec("_mantis_parallel_crypt_vec128", "bytes", None, "tk")
    open(os.path.join(HERE, f + ".h"), "w").write(parallel_header(f, "MANTIS_PARALLEL_VEC128", "mantis-cipher.h", body))
    ent = "void h_crypt(void) { void *o; const void *i; const void *t; const MantisKey_t *ks; _mantis_parallel_crypt_vec128(o, i, t, ks); VCANARY(); }"
    open(os.path.join(HERE, "..", "harness", "h_mantis_parallel_vec128.c"), "w").write(HARNESS % dict(file=f, pubhdr="mantis-cipher.h", entries=ent))
    print("generated")


if __name__ == "__main__":
    main()
