/* Iterative reference ciphers built ONLY from the generated spec step
 * functions (spec_gen.h).  Native use only: validated on the ten published
 * test vectors (main with -DSPEC_REF_SELFTEST) and used as the oracle of the
 * native replayers.  Not used inside CBMC proofs (those use the loop-free step
 * functions in lock-step with the real loops). */
#include <stdint.h>
#include <string.h>
#include <stdio.h>
#include "spec_gen.h"
#include "spec_ref.h"

/* ---------- SKINNY-128 ---------- */
void ref_skinny128_rtk(uint8_t rk[56][8], const uint8_t tk1[16], const uint8_t tk2[16],
                       const uint8_t tk3[16], int ntk, int rounds, int tweak_domain)
{
    uint8_t t1[16], t2[16], t3[16];
    uint8_t rc = 0;
    int i, r;
    memcpy(t1, tk1, 16);
    if (ntk >= 2) memcpy(t2, tk2, 16); else memset(t2, 0, 16);
    if (ntk >= 3) memcpy(t3, tk3, 16); else memset(t3, 0, 16);
    for (r = 0; r < rounds; ++r) {
        rc = SPEC_RC_NEXT(rc);
        for (i = 0; i < 8; ++i)
            rk[r][i] = t1[i] ^ t2[i] ^ t3[i];
        rk[r][0] ^= (rc & 0x0F);
        rk[r][4] ^= (rc >> 4) & 0x3;
        if (tweak_domain)
            rk[r][2] ^= 0x02;
        spec128_tk_permute(t1);
        spec128_tk_permute(t2); spec128_tk_lfsr2(t2);
        spec128_tk_permute(t3); spec128_tk_lfsr3(t3);
    }
}

static int rounds128(int ntk) { return ntk == 1 ? 40 : ntk == 2 ? 48 : 56; }
static int rounds64(int ntk) { return ntk == 1 ? 32 : ntk == 2 ? 36 : 40; }

void ref_skinny128_crypt(uint8_t out[16], const uint8_t in[16], const uint8_t tk1[16],
                         const uint8_t tk2[16], const uint8_t tk3[16], int ntk,
                         int tweak_domain, int decrypt)
{
    uint8_t rk[56][8];
    uint8_t g[16];
    int r, rounds = rounds128(ntk);
    ref_skinny128_rtk(rk, tk1, tk2, tk3, ntk, rounds, tweak_domain);
    memcpy(g, in, 16);
    if (!decrypt)
        for (r = 0; r < rounds; ++r) spec128_round(g, rk[r]);
    else
        for (r = rounds; r > 0; --r) spec128_inv_round(g, rk[r - 1]);
    memcpy(out, g, 16);
}

/* key of 16..48 bytes, zero padded to the next primary size */
void ref_skinny128_key_crypt(uint8_t out[16], const uint8_t in[16], const uint8_t *key,
                             unsigned len, int decrypt)
{
    uint8_t k[48];
    int ntk = len <= 16 ? 1 : len <= 32 ? 2 : 3;
    memset(k, 0, sizeof(k));
    memcpy(k, key, len);
    ref_skinny128_crypt(out, in, k, k + 16, k + 32, ntk, 0, decrypt);
}

/* tweakable: tweak in TK1 with the domain bit, key (16..32 bytes) in TK2/TK3 */
void ref_skinny128_tweak_crypt(uint8_t out[16], const uint8_t in[16], const uint8_t *key,
                               unsigned len, const uint8_t tweak[16], int decrypt)
{
    uint8_t k[32];
    int ntk = len <= 16 ? 2 : 3;
    memset(k, 0, sizeof(k));
    memcpy(k, key, len);
    ref_skinny128_crypt(out, in, tweak, k, k + 16, ntk, 1, decrypt);
}

/* ---------- SKINNY-64 (cells are nibbles, high nibble first) ---------- */
static void unpack64(uint8_t g[16], const uint8_t b[8])
{
    int i;
    for (i = 0; i < 8; ++i) { g[2 * i] = b[i] >> 4; g[2 * i + 1] = b[i] & 0xF; }
}
static void pack64(uint8_t b[8], const uint8_t g[16])
{
    int i;
    for (i = 0; i < 8; ++i) b[i] = (uint8_t)((g[2 * i] << 4) | (g[2 * i + 1] & 0xF));
}

void ref_skinny64_rtk(uint8_t rk[40][8], const uint8_t tk1[8], const uint8_t tk2[8],
                      const uint8_t tk3[8], int ntk, int rounds, int tweak_domain)
{
    uint8_t t1[16], t2[16], t3[16];
    uint8_t rc = 0;
    int i, r;
    unpack64(t1, tk1);
    if (ntk >= 2) unpack64(t2, tk2); else memset(t2, 0, 16);
    if (ntk >= 3) unpack64(t3, tk3); else memset(t3, 0, 16);
    for (r = 0; r < rounds; ++r) {
        rc = SPEC_RC_NEXT(rc);
        for (i = 0; i < 8; ++i)
            rk[r][i] = t1[i] ^ t2[i] ^ t3[i];
        rk[r][0] ^= (rc & 0x0F);
        rk[r][4] ^= (rc >> 4) & 0x3;
        if (tweak_domain)
            rk[r][2] ^= 0x02;
        spec64_tk_permute(t1);
        spec64_tk_permute(t2); spec64_tk_lfsr2(t2);
        spec64_tk_permute(t3); spec64_tk_lfsr3(t3);
    }
}

void ref_skinny64_crypt(uint8_t out[8], const uint8_t in[8], const uint8_t tk1[8],
                        const uint8_t tk2[8], const uint8_t tk3[8], int ntk,
                        int tweak_domain, int decrypt)
{
    uint8_t rk[40][8];
    uint8_t g[16];
    int r, rounds = rounds64(ntk);
    ref_skinny64_rtk(rk, tk1, tk2, tk3, ntk, rounds, tweak_domain);
    unpack64(g, in);
    if (!decrypt)
        for (r = 0; r < rounds; ++r) spec64_round(g, rk[r]);
    else
        for (r = rounds; r > 0; --r) spec64_inv_round(g, rk[r - 1]);
    pack64(out, g);
}

void ref_skinny64_key_crypt(uint8_t out[8], const uint8_t in[8], const uint8_t *key,
                            unsigned len, int decrypt)
{
    uint8_t k[24];
    int ntk = len <= 8 ? 1 : len <= 16 ? 2 : 3;
    memset(k, 0, sizeof(k));
    memcpy(k, key, len);
    ref_skinny64_crypt(out, in, k, k + 8, k + 16, ntk, 0, decrypt);
}

void ref_skinny64_tweak_crypt(uint8_t out[8], const uint8_t in[8], const uint8_t *key,
                              unsigned len, const uint8_t tweak[8], int decrypt)
{
    uint8_t k[16];
    int ntk = len <= 8 ? 2 : 3;
    memset(k, 0, sizeof(k));
    memcpy(k, key, len);
    ref_skinny64_crypt(out, in, tweak, k, k + 8, ntk, 1, decrypt);
}

/* ---------- MANTIS-r ---------- */
static void mantis_core(uint8_t g[16], const uint8_t k0[16], const uint8_t k0p[16],
                        const uint8_t k1[16], const uint8_t tweak[16], int rounds)
{
    /* as defined in the paper: whitening, r forward rounds, S M S, r backward
       rounds under k1 ^ alpha, whitening with k0' */
    uint8_t t[16], k1a[16];
    int i, r;
    memcpy(t, tweak, 16);
    for (i = 0; i < 16; ++i) k1a[i] = k1[i] ^ SPEC_MALPHA[i];
    specm_xor(g, k0); specm_xor(g, k1); specm_xor(g, t);
    for (r = 0; r < rounds; ++r) {
        specm_sub(g);
        specm_xor(g, SPEC_MRC[r]);
        specm_h(t);
        specm_xor(g, k1); specm_xor(g, t);
        specm_perm(g);
        specm_mix(g);
    }
    specm_sub(g); specm_mix(g); specm_sub(g);
    for (r = rounds; r > 0; --r) {
        specm_mix(g);
        specm_perm_inv(g);
        specm_xor(g, k1a); specm_xor(g, t);
        specm_h_inv(t);
        specm_xor(g, SPEC_MRC[r - 1]);
        specm_sub(g);
    }
    specm_xor(g, k0p); specm_xor(g, k1a); specm_xor(g, t);
}

void ref_mantis_crypt(uint8_t out[8], const uint8_t in[8], const uint8_t key[16],
                      const uint8_t tweak[8], int rounds, int decrypt)
{
    uint8_t g[16], k0[16], k0p[16], k1[16], t[16], tmp[8];
    uint64_t v = 0, vp;
    int i;
    for (i = 0; i < 8; ++i) v = (v << 8) | key[i];
    vp = ((v >> 1) | (v << 63)) ^ (v >> 63);
    for (i = 0; i < 8; ++i) tmp[i] = (uint8_t)(vp >> (56 - 8 * i));
    unpack64(k0, key); unpack64(k0p, tmp); unpack64(k1, key + 8);
    unpack64(t, tweak); unpack64(g, in);
    if (!decrypt) {
        mantis_core(g, k0, k0p, k1, t, rounds);
    } else {
        /* decryption = the same circuit with k0 <-> k0' and k1 ^ alpha */
        uint8_t k1a[16];
        for (i = 0; i < 16; ++i) k1a[i] = k1[i] ^ SPEC_MALPHA[i];
        mantis_core(g, k0p, k0, k1a, t, rounds);
    }
    pack64(out, g);
}


/* ---------- single rounds (replay of inductive-step counterexamples) ---------- */
void ref_round128(uint8_t g[16], const uint8_t rk[8], int inverse)
{
    if (!inverse) spec128_round(g, rk); else spec128_inv_round(g, rk);
}
void ref_round64(uint8_t out[8], const uint8_t in[8], const uint8_t rk[4], int inverse)
{
    uint8_t g[16], k[8];
    int i;
    unpack64(g, in);
    for (i = 0; i < 4; ++i) { k[2 * i] = rk[i] >> 4; k[2 * i + 1] = rk[i] & 0xF; }
    if (!inverse) spec64_round(g, k); else spec64_inv_round(g, k);
    pack64(out, g);
}

/* ---------- big-endian counter arithmetic ---------- */
void ref_counter_add(uint8_t *ctr, unsigned len, uint64_t add)
{
    unsigned i;
    unsigned carry = 0;
    for (i = len; i > 0; --i) {
        unsigned v = ctr[i - 1] + (unsigned)(add & 0xFF) + carry;
        ctr[i - 1] = (uint8_t)v;
        carry = v >> 8;
        add >>= 8;
    }
}

#ifdef SPEC_REF_SELFTEST
static int fail = 0;
static void chk(const char *name, const uint8_t *a, const uint8_t *b, unsigned n)
{
    if (memcmp(a, b, n)) { printf("spec selftest FAILED: %s\n", name); fail = 1; }
}
int main(void)
{
    /* Test vectors from the SKINNY paper (appendix) */
    static const uint8_t p64a[8] = {0x06,0x03,0x4f,0x95,0x77,0x24,0xd1,0x9d}, c64a[8] = {0xbb,0x39,0xdf,0xb2,0x42,0x9b,0x8a,0xc7},
        k64a[8] = {0xf5,0x26,0x98,0x26,0xfc,0x68,0x12,0x38};
    static const uint8_t p64b[8] = {0xcf,0x16,0xcf,0xe8,0xfd,0x0f,0x98,0xaa}, c64b[8] = {0x6c,0xed,0xa1,0xf4,0x3d,0xe9,0x2b,0x9e},
        k64b[16] = {0x9e,0xb9,0x36,0x40,0xd0,0x88,0xda,0x63,0x76,0xa3,0x9d,0x1c,0x8b,0xea,0x71,0xe1};
    static const uint8_t p64c[8] = {0x53,0x0c,0x61,0xd3,0x5e,0x86,0x63,0xc3}, c64c[8] = {0xdd,0x2c,0xf1,0xa8,0xf3,0x30,0x30,0x3c},
        k64c[24] = {0xed,0x00,0xc8,0x5b,0x12,0x0d,0x68,0x61,0x87,0x53,0xe2,0x4b,0xfd,0x90,0x8f,0x60,0xb2,0xdb,0xb4,0x1b,0x42,0x2d,0xfc,0xd0};
    static const uint8_t p128a[16] = {0xf2,0x0a,0xdb,0x0e,0xb0,0x8b,0x64,0x8a,0x3b,0x2e,0xee,0xd1,0xf0,0xad,0xda,0x14},
        c128a[16] = {0x22,0xff,0x30,0xd4,0x98,0xea,0x62,0xd7,0xe4,0x5b,0x47,0x6e,0x33,0x67,0x5b,0x74},
        k128a[16] = {0x4f,0x55,0xcf,0xb0,0x52,0x0c,0xac,0x52,0xfd,0x92,0xc1,0x5f,0x37,0x07,0x3e,0x93};
    static const uint8_t p128b[16] = {0x3a,0x0c,0x47,0x76,0x7a,0x26,0xa6,0x8d,0xd3,0x82,0xa6,0x95,0xe7,0x02,0x2e,0x25},
        c128b[16] = {0xb7,0x31,0xd9,0x8a,0x4b,0xde,0x14,0x7a,0x7e,0xd4,0xa6,0xf1,0x6b,0x9b,0x58,0x7f},
        k128b[32] = {0x00,0x9c,0xec,0x81,0x60,0x5d,0x4a,0xc1,0xd2,0xae,0x9e,0x30,0x85,0xd7,0xa1,0xf3,
                     0x1a,0xc1,0x23,0xeb,0xfc,0x00,0xfd,0xdc,0xf0,0x10,0x46,0xce,0xed,0xdf,0xca,0xb3};
    static const uint8_t p128c[16] = {0xa3,0x99,0x4b,0x66,0xad,0x85,0xa3,0x45,0x9f,0x44,0xe9,0x2b,0x08,0xf5,0x50,0xcb},
        c128c[16] = {0x94,0xec,0xf5,0x89,0xe2,0x01,0x7c,0x60,0x1b,0x38,0xc6,0x34,0x6a,0x10,0xdc,0xfa},
        k128c[48] = {0xdf,0x88,0x95,0x48,0xcf,0xc7,0xea,0x52,0xd2,0x96,0x33,0x93,0x01,0x79,0x74,0x49,
                     0xab,0x58,0x8a,0x34,0xa4,0x7f,0x1a,0xb2,0xdf,0xe9,0xc8,0x29,0x3f,0xbe,0xa9,0xa5,
                     0xab,0x1a,0xfa,0xc2,0x61,0x10,0x12,0xcd,0x8c,0xef,0x95,0x26,0x18,0xc3,0xeb,0xe8};
    /* MANTIS vectors from the paper */
    static const uint8_t mk[16] = {0x92,0xf0,0x99,0x52,0xc6,0x25,0xe3,0xe9,0xd7,0xa0,0x60,0xf7,0x14,0xc0,0x29,0x2b},
        mt[8] = {0xba,0x91,0x2e,0x6f,0x10,0x55,0xfe,0xd2};
    static const uint8_t mp[5][8] = {
        {0x3b,0x5c,0x77,0xa4,0x92,0x1f,0x97,0x18}, {0xd6,0x52,0x20,0x35,0xc1,0xc0,0xc6,0xc1},
        {0x60,0xe4,0x34,0x57,0x31,0x19,0x36,0xfd}, {0x30,0x8e,0x8a,0x07,0xf1,0x68,0xf5,0x17},
        {0x97,0x1e,0xa0,0x1a,0x86,0xb4,0x10,0xbb}};
    uint8_t o[16];
    int r;
    ref_skinny64_key_crypt(o, p64a, k64a, 8, 0); chk("64-64 enc", o, c64a, 8);
    ref_skinny64_key_crypt(o, c64a, k64a, 8, 1); chk("64-64 dec", o, p64a, 8);
    ref_skinny64_key_crypt(o, p64b, k64b, 16, 0); chk("64-128 enc", o, c64b, 8);
    ref_skinny64_key_crypt(o, c64b, k64b, 16, 1); chk("64-128 dec", o, p64b, 8);
    ref_skinny64_key_crypt(o, p64c, k64c, 24, 0); chk("64-192 enc", o, c64c, 8);
    ref_skinny64_key_crypt(o, c64c, k64c, 24, 1); chk("64-192 dec", o, p64c, 8);
    ref_skinny128_key_crypt(o, p128a, k128a, 16, 0); chk("128-128 enc", o, c128a, 16);
    ref_skinny128_key_crypt(o, c128a, k128a, 16, 1); chk("128-128 dec", o, p128a, 16);
    ref_skinny128_key_crypt(o, p128b, k128b, 32, 0); chk("128-256 enc", o, c128b, 16);
    ref_skinny128_key_crypt(o, c128b, k128b, 32, 1); chk("128-256 dec", o, p128b, 16);
    ref_skinny128_key_crypt(o, p128c, k128c, 48, 0); chk("128-384 enc", o, c128c, 16);
    ref_skinny128_key_crypt(o, c128c, k128c, 48, 1); chk("128-384 dec", o, p128c, 16);
    for (r = 5; r <= 8; ++r) {
        ref_mantis_crypt(o, mp[r - 5], mk, mt, r, 0); chk("mantis enc", o, mp[r - 4], 8);
        ref_mantis_crypt(o, mp[r - 4], mk, mt, r, 1); chk("mantis dec", o, mp[r - 5], 8);
    }
    {
        uint8_t c[4] = {0xff, 0xff, 0xff, 0xfe};
        static const uint8_t e[4] = {0, 0, 0, 1};
        ref_counter_add(c, 4, 3); chk("counter", c, e, 4);
    }
    if (!fail) printf("spec selftest ok: 10 published vectors, both directions\n");
    return fail;
}
#endif
