#ifndef SPEC_REF_H
#define SPEC_REF_H
#include <stdint.h>
void ref_skinny128_rtk(uint8_t rk[56][8], const uint8_t tk1[16], const uint8_t tk2[16], const uint8_t tk3[16], int ntk, int rounds, int tweak_domain);
void ref_skinny128_crypt(uint8_t out[16], const uint8_t in[16], const uint8_t tk1[16], const uint8_t tk2[16], const uint8_t tk3[16], int ntk, int tweak_domain, int decrypt);
void ref_skinny128_key_crypt(uint8_t out[16], const uint8_t in[16], const uint8_t *key, unsigned len, int decrypt);
void ref_skinny128_tweak_crypt(uint8_t out[16], const uint8_t in[16], const uint8_t *key, unsigned len, const uint8_t tweak[16], int decrypt);
void ref_skinny64_rtk(uint8_t rk[40][8], const uint8_t tk1[8], const uint8_t tk2[8], const uint8_t tk3[8], int ntk, int rounds, int tweak_domain);
void ref_skinny64_crypt(uint8_t out[8], const uint8_t in[8], const uint8_t tk1[8], const uint8_t tk2[8], const uint8_t tk3[8], int ntk, int tweak_domain, int decrypt);
void ref_skinny64_key_crypt(uint8_t out[8], const uint8_t in[8], const uint8_t *key, unsigned len, int decrypt);
void ref_skinny64_tweak_crypt(uint8_t out[8], const uint8_t in[8], const uint8_t *key, unsigned len, const uint8_t tweak[8], int decrypt);
void ref_mantis_crypt(uint8_t out[8], const uint8_t in[8], const uint8_t key[16], const uint8_t tweak[8], int rounds, int decrypt);
void ref_round128(uint8_t g[16], const uint8_t rk[8], int inverse);
void ref_round64(uint8_t out[8], const uint8_t in[8], const uint8_t rk[4], int inverse);
void ref_counter_add(uint8_t *ctr, unsigned len, uint64_t add);
#endif
