#!/bin/bash
# confirm_seed.sh <seed-dir>: independently confirm a seeded change:
#   fresh worktree of /repo HEAD -> build -> demo must PASS;
#   apply patch.diff -> build -> `make check` must print 30 ok -> demo must FAIL.
# Prints one summary line; removes the worktree.
SEED="$(cd "$1" && pwd)"
WT="$(mktemp -d /tmp/cs.XXXXXX)"
rmdir "$WT"
git -C /repo worktree add -q --detach "$WT" HEAD || exit 2
cleanup() { git -C /repo worktree remove --force "$WT" 2>/dev/null; rm -rf "$WT"; }
trap cleanup EXIT
mkdir -p "$WT/demo"
cp "$SEED"/demo.c "$SEED"/build.sh "$WT/demo/"
[ -f "$SEED/extra_files.txt" ] && (cd "$SEED" && cat extra_files.txt | xargs -I{} cp {} "$WT/demo/")
# sub-directories of the demonstration (e.g. a replacement header directory)
for d in "$SEED"/*/; do [ -d "$d" ] && cp -r "$d" "$WT/demo/"; done
# optional: extra CFLAGS for the library when building it FOR THE DEMO (e.g. -DSKINNY_C_VERIF to pin a back end);
# the repository's tests are always run on the normal build
LIBF=""; [ -f "$SEED/libcflags" ] && LIBF="$(cat "$SEED/libcflags")"
bld() { ( cd "$WT" && make clean >/dev/null 2>&1; CFLAGS="$1" make >/dev/null 2>/tmp/cs_make.$$ ); }
bld "$LIBF" || { echo "CONFIRM $SEED: baseline build failed"; exit 2; }
sh "$WT/demo/build.sh" >/dev/null 2>&1 || { echo "CONFIRM $SEED: demo build failed"; exit 2; }
"$WT/demo/demo" >/tmp/cs_out.$$ 2>&1; base=$?
git -C "$WT" apply "$SEED/patch.diff" || { echo "CONFIRM $SEED: patch does not apply"; exit 2; }
bld "" || { echo "CONFIRM $SEED: patched build failed"; exit 2; }
warn=$(grep -c "warning:" /tmp/cs_make.$$)
oks=$( cd "$WT" && make check 2>&1 | grep -c ": ok" )
[ -n "$LIBF" ] && bld "$LIBF"
sh "$WT/demo/build.sh" >/dev/null 2>&1
"$WT/demo/demo" >/tmp/cs_out2.$$ 2>&1; mut=$?
echo "CONFIRM $(basename "$SEED"): demo_on_original_exit=$base demo_on_patched_exit=$mut tests_ok_with_patch=$oks warnings=$warn"
rm -f /tmp/cs_out.$$ /tmp/cs_out2.$$ /tmp/cs_make.$$
[ "$base" = 0 ] && [ "$mut" != 0 ] && [ "$oks" = 30 ]
