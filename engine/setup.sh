#!/bin/bash
# setup: offline self-test of the framework pieces that every check depends on.
#  1. tools present; 2. spec transcription validated on the 10 published vectors;
#  3. the instrumented tree, with every contract point defined empty, compiles natively and passes
#     the repository's 30 tests ("insertions have no executable effect");
#  4. the Arduino classes extract to valid C (C19).
set -e
HERE="$(cd "$(dirname "$0")/.." && pwd)"
for t in cbmc goto-cc goto-instrument gcc python3; do command -v $t >/dev/null || { echo "missing tool $t"; exit 1; }; done
W="$(mktemp -d /tmp/verif_setup.XXXXXX)"
trap 'rm -rf "$W"' EXIT
python3 "$HERE/spec/gen_spec.py" "$W/spec_gen.h"
gcc -O1 -I"$W" -I"$HERE/spec" -DSPEC_REF_SELFTEST "$HERE/spec/spec_ref.c" -o "$W/spec_selftest"
"$W/spec_selftest"
REPO="${VERIF_REPO:-/repo}"
"$HERE/engine/mktree.sh" "$REPO" "$W/tree"
mkdir -p "$W/native" && cp -r "$REPO/Makefile" "$REPO/options.mak" "$REPO/test" "$REPO/examples" "$REPO/src" "$REPO/include" "$W/native/"
cp "$W"/tree/src/*.c "$W"/tree/src/*.h "$W/native/src/"
( cd "$W/native" && make clean >/dev/null 2>&1; CFLAGS="-include $W/tree/verif_defaults.h" make >/dev/null 2>&1 && make check 2>&1 | grep -c ": ok" > "$W/oks" ) || true
n=$(cat "$W/oks" 2>/dev/null || echo 0)
echo "instrumented tree (all contract points empty): $n/30 repository tests ok"
[ "$n" = 30 ]
#  4. C19: the 12 translation units extracted from the Arduino sources, with every contract point empty, are valid C
#     (extraction break here = the C19 jobs will be UNDECIDED; reported, does not fail the setup of the other properties)
if [ -f "$W/tree/arduino/EXTRACTION_BREAK" ]; then
  echo "Arduino extraction: BREAK for $(tr '\n' ' ' < "$W/tree/arduino/EXTRACTION_BREAK")"
else
  k=0
  for f in "$W"/tree/arduino/*.c; do
    gcc -std=gnu99 -fsyntax-only -Wno-unused-function -include "$W/tree/verif_defaults.h" "$f" 2>>"$W/ard.log" && k=$((k+1))
  done
  echo "Arduino extraction: $k/12 translation units compile as C"
fi
