"""Job table: every CBMC contract job, the property ids it serves and its tier."""
from vrun import Job

JOBS = []


def J(*a, **k):
    JOBS.append(Job(*a, **k))


LC = ["loop_invariant_base", "loop_invariant_step"]
PC = ["postcondition"]

# ------------------------------------------------------------------ SKINNY single block (128 and 64)
for (B, blk) in (("128", 16), ("64", 8)):
    H = "h_skinny%s_cipher.c" % B
    s = "s%s." % B
    f = "skinny%s_" % B
    R = "skinny%s" % B
    J(s + "ecb_encrypt", ["C01", "C09", "C11", "C12"], H, "h_ecb_encrypt", enforce=f + "ecb_encrypt",
      must_have=LC + PC, replay=R, timeout=1200,
      note="loop contract, ghost lock-step with spec round; exact 1-block extents; in-place allowed")
    J(s + "ecb_decrypt", ["C01", "C03", "C09", "C11", "C12"], H, "h_ecb_decrypt", enforce=f + "ecb_decrypt",
      must_have=LC + PC, replay=R, timeout=1200,
      note="loop contract, ghost lock-step with the explicit spec inverse round")
    J(s + "set_tk1", ["C01", "C04", "C11"], H, "h_set_tk1", enforce=f + "set_tk1",
      must_have=LC + PC, replay=R, timeout=1800,
      note="closed form TK1: cell i at round j = key[PT^j[i]]; rc LFSR vs table")
    J(s + "xor_tk1", ["C04", "C11"], H, "h_xor_tk1", enforce=f + "xor_tk1",
      must_have=LC + PC, replay=R + "_tweak", timeout=1200)
    J(s + "set_tk2", ["C01", "C10", "C11"], H, "h_set_tk2", enforce=f + "set_tk2",
      must_have=LC + PC, replay=R + "_keylen", note="key 1..block bytes symbolic; ghost = bytes ++ zeros")
    J(s + "set_tk3", ["C01", "C10", "C11"], H, "h_set_tk3", enforce=f + "set_tk3",
      must_have=LC + PC, replay=R + "_keylen")
    TK = [f + "set_tk1", f + "set_tk2", f + "set_tk3"]
    J(s + "set_key_inner", ["C01", "C10", "C04"], H, "h_set_key_inner", enforce=f + "set_key_inner",
      replace=TK, must_have=PC, replay=R + "_keylen",
      note="round count, which bytes go to TK1/TK2/TK3, each tweakey function called exactly once")
    J(s + "set_key", ["C01", "C10", "C14", "C11"], H, "h_set_key", enforce=f + "set_key",
      replace=[f + "set_key_inner"], must_have=PC, replay=R + "_keylen,reject",
      note="return value over the full unsigned range of lengths; empty frame on rejection")
    J(s + "set_tweaked_key", ["C04", "C10", "C14", "C11"], H, "h_set_tweaked_key", enforce=f + "set_tweaked_key",
      defs=["VERIF_ALIAS_KEY=1"], replace=TK, must_have=PC, replay=R + "_tweak,reject", timeout=1800,
      functions=[f + "set_tweaked_key", f + "set_key_inner"],
      note="set_key_inner inlined (loop-free); set_tk1/2/3 replaced by their contracts (TK1 argument = tweak field of the same object: byte-range locality)")
    for n in range(1, blk + 1):
        J(s + "set_tweak.len%d" % n, ["C04", "C14", "C11"], H, "h_set_tweak", enforce=f + "set_tweak",
          defs=["VERIF_CASE_LEN=%d" % n, "VERIF_ALIAS_KEY=1"], replace=[f + "xor_tk1"], must_have=PC, replay=R + "_tweak",
          timeout=1800, note="tweak length %d (case split R8); NULL or non-NULL tweak; arbitrary previous tweak; xor_tk1 replaced by its contract" % n)
    J(s + "set_tweak.invalid", ["C04", "C14"], H, "h_set_tweak", enforce=f + "set_tweak",
      defs=["VERIF_CASE_INVALID=1", "VERIF_ALIAS_KEY=1"], replace=[f + "xor_tk1"], must_have=PC, replay=R + "_tweak",
      note="tweak length 0 or > block (symbolic): returns 0, empty frame")

# ------------------------------------------------------------------ generic CTR back ends: life cycle, setters
HC128 = "h_skinny128_ctr.c"
MF = ["--malloc-may-fail", "--malloc-fail-null"]
J("c128.def_init", ["C15", "C16", "C11"], HC128, "h_def_init", enforce="skinny128_ctr_def_init", cbmc=MF,
  must_have=PC, replay="ctr128_life", note="calloc may fail: 0 and nothing allocated; else fresh zeroed context, offset = block")
J("c128.def_cleanup", ["C15", "C17"], HC128, "h_def_cleanup", enforce="skinny128_ctr_def_cleanup",
  replace=["skinny_cleanse"], must_have=PC + ["C17 erasure"], replay="ctr128_life",
  note="free() redirected to a checker asserting the whole context is zero at the moment of release; freed exactly once; NULL ctx: empty frame")
J("c128.def_set_key", ["C10", "C14", "C05"], HC128, "h_def_set_key", enforce="skinny128_ctr_def_set_key",
  replace=["skinny128_set_key"], must_have=PC, replay="ctr128_life")
J("c128.def_set_tweaked_key", ["C10", "C14", "C04"], HC128, "h_def_set_tweaked_key", enforce="skinny128_ctr_def_set_tweaked_key",
  replace=["skinny128_set_tweaked_key"], must_have=PC, replay="ctr128_life")
J("c128.def_set_tweak", ["C14", "C04"], HC128, "h_def_set_tweak", enforce="skinny128_ctr_def_set_tweak",
  replace=["skinny128_set_tweak"], must_have=PC, replay="ctr128_life")
for n in range(0, 17):
    J("c128.def_set_counter.len%d" % n, ["C05", "C14"], HC128, "h_def_set_counter", enforce="skinny128_ctr_def_set_counter",
      defs=["VERIF_CASE_LEN=%d" % n], must_have=PC, replay="ctr128", note="counter length %d; NULL or not" % n)
J("c128.def_set_counter.invalid", ["C05", "C14"], HC128, "h_def_set_counter", enforce="skinny128_ctr_def_set_counter",
  defs=["VERIF_CASE_INVALID=1"], must_have=PC, replay="ctr128")

# ------------------------------------------------------------------ MANTIS single block
HM = "h_mantis_cipher.c"
J("m.ecb_crypt", ["C02", "C09", "C11", "C12"], HM, "h_ecb_crypt", enforce="mantis_ecb_crypt",
  must_have=LC + PC, replay="mantis", timeout=1800,
  note="forward and reflected loops in lock-step with the paper's MANTIS-r steps; stored tweak")
J("m.ecb_crypt_tweaked", ["C02", "C09", "C11", "C12"], HM, "h_ecb_crypt_tweaked", enforce="mantis_ecb_crypt_tweaked",
  must_have=LC + PC, replay="mantis", timeout=1800, note="same with the explicit per-call tweak")
J("m.set_key", ["C02", "C10", "C14", "C11"], HM, "h_set_key", enforce="mantis_set_key", unwind=10, loops=False,
  must_have=PC, replay="mantis,reject",
  note="k0, k1, k0' = (k0>>>1)^(k0>>63), decrypt mode swaps k0/k0' and xors alpha; zero tweak; the 8-iteration rotate loop is unwound (program-constant bound, unwinding assertion on)",
  bounded=None)
J("m.set_tweak", ["C02", "C14", "C11"], HM, "h_set_tweak", enforce="mantis_set_tweak", must_have=PC, replay="mantis,reject")
J("m.swap_modes", ["C03", "C11"], HM, "h_swap_modes", enforce="mantis_swap_modes", must_have=PC, replay="mantis")

J("c128.def_encrypt", ["C05", "C09", "C14"], HC128, "h_def_encrypt", enforce="skinny128_ctr_def_encrypt",
  defs=["VERIF_ROLE_CTR=1"], replace=["skinny128_ecb_encrypt", "skinny128_inc_counter", "skinny128_xor", "skinny_xor"],
  must_have=LC + PC + ["ptr-norm"], replay="ctr128", timeout=1800,
  note="coverage layer: every data byte is combined exactly once with the keystream byte at the matching absolute "
       "position; size <= 2^40 symbolic; in-place or disjoint; NULL arguments -> 0 with empty frame")


def by_id(i):
    for j in JOBS:
        if j.id == i:
            return j
    raise KeyError(i)
