"""Job table: every CBMC contract job, the property ids it serves and its tier."""
from vrun import Job

JOBS = []


def J(*a, **k):
    JOBS.append(Job(*a, **k))


LC = ["loop_invariant_base", "loop_invariant_step"]
PC = ["postcondition"]

# ------------------------------------------------------------------ SKINNY-128 single block
H128 = "h_skinny128_cipher.c"
J("s128.ecb_encrypt", ["C01", "C11", "C12"], H128, "h_ecb_encrypt", enforce="skinny128_ecb_encrypt",
  must_have=LC + PC, replay="skinny128", timeout=900,
  note="loop contract, ghost lock-step with spec128_round; in-place allowed")
J("s128.ecb_decrypt", ["C01", "C03", "C11", "C12"], H128, "h_ecb_decrypt", enforce="skinny128_ecb_decrypt",
  must_have=LC + PC, replay="skinny128", timeout=900,
  note="loop contract, ghost lock-step with the explicit spec inverse round")
J("s128.set_tk1", ["C01", "C04", "C11"], H128, "h_set_tk1", enforce="skinny128_set_tk1",
  must_have=LC + PC, replay="skinny128", note="closed form TK1: cell i at round j = key[PT^j[i]]; rc LFSR vs table")
J("s128.xor_tk1", ["C04", "C11"], H128, "h_xor_tk1", enforce="skinny128_xor_tk1",
  must_have=LC + PC, replay="skinny128_tweak")
J("s128.set_tk2", ["C01", "C10", "C11"], H128, "h_set_tk2", enforce="skinny128_set_tk2",
  must_have=LC + PC, replay="skinny128_keylen", note="key 1..16 bytes symbolic; ghost = bytes ++ zeros")
J("s128.set_tk3", ["C01", "C10", "C11"], H128, "h_set_tk3", enforce="skinny128_set_tk3",
  must_have=LC + PC, replay="skinny128_keylen")


def by_id(i):
    for j in JOBS:
        if j.id == i:
            return j
    raise KeyError(i)
