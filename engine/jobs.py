"""Job table: every CBMC contract job, the property ids it serves and its tier."""
from vrun import Job

JOBS = []


def J(*a, **k):
    JOBS.append(Job(*a, **k))


LC = ["loop_invariant_base", "loop_invariant_step"]
PC = ["postcondition"]

# ------------------------------------------------------------------ SKINNY single block (128 and 64)
for (B, blk) in (("128", 16), ("64", 8)):
    H = "h_skinny%s_cipher.c" % B
    s = "s%s." % B
    f = "skinny%s_" % B
    R = "skinny%s" % B
    J(s + "ecb_encrypt", ["C01", "C09", "C11", "C12"], H, "h_ecb_encrypt", enforce=f + "ecb_encrypt",
      must_have=LC + PC, replay=R, timeout=1200,
      note="loop contract, ghost lock-step with spec round; exact 1-block extents; in-place allowed")
    J(s + "ecb_decrypt", ["C01", "C03", "C09", "C11", "C12"], H, "h_ecb_decrypt", enforce=f + "ecb_decrypt",
      must_have=LC + PC, replay=R, timeout=1200,
      note="loop contract, ghost lock-step with the explicit spec inverse round")
    J(s + "set_tk1", ["C01", "C04", "C11"], H, "h_set_tk1", enforce=f + "set_tk1",
      must_have=LC + PC, replay=R, timeout=1800,
      note="closed form TK1: cell i at round j = key[PT^j[i]]; rc LFSR vs table")
    J(s + "xor_tk1", ["C04", "C11"], H, "h_xor_tk1", enforce=f + "xor_tk1",
      must_have=LC + PC, replay=R + "_tweak", timeout=1200)
    J(s + "set_tk2", ["C01", "C10", "C11"], H, "h_set_tk2", enforce=f + "set_tk2",
      must_have=LC + PC, replay=R + "_keylen", note="key 1..block bytes symbolic; ghost = bytes ++ zeros")
    J(s + "set_tk3", ["C01", "C10", "C11"], H, "h_set_tk3", enforce=f + "set_tk3",
      must_have=LC + PC, replay=R + "_keylen")
    TK = [f + "set_tk1", f + "set_tk2", f + "set_tk3"]
    for (tw, lo, hi) in ((0, blk, 3 * blk), (1, blk, 2 * blk)):
        for n in range(lo, hi + 1):
            J(s + "set_key_inner.%s%d" % ("t" if tw else "k", n), ["C01", "C10", "C04"] if (n % blk == 0) else ["C10", "C04"], H, "h_set_key_inner",
              enforce=f + "set_key_inner", defs=["VERIF_CASE_LEN=%d" % n, "VERIF_CASE_TWEAK=%d" % tw],
              replace=TK, must_have=PC, replay=R + "_keylen",
              note="key length %d, %s (case split R8): round count, which bytes go to TK1/TK2/TK3, each tweakey function called exactly once" % (n, "tweakable" if tw else "no tweak"))
    J(s + "set_key", ["C01", "C10", "C14", "C11"], H, "h_set_key", enforce=f + "set_key",
      replace=[f + "set_key_inner"], must_have=PC, replay=R + "_keylen,reject",
      note="return value over the full unsigned range of lengths; empty frame on rejection")
    J(s + "set_tweaked_key", ["C04", "C10", "C14", "C11"], H, "h_set_tweaked_key", enforce=f + "set_tweaked_key",
      defs=["VERIF_ALIAS_KEY=1"], replace=TK, must_have=PC, replay=R + "_tweak,reject", timeout=1800,
      functions=[f + "set_tweaked_key", f + "set_key_inner"],
      note="set_key_inner inlined (loop-free); set_tk1/2/3 replaced by their contracts (TK1 argument = tweak field of the same object: byte-range locality)")
    for n in range(1, blk + 1):
        J(s + "set_tweak.len%d" % n, ["C04", "C14", "C11"], H, "h_set_tweak", enforce=f + "set_tweak",
          defs=["VERIF_CASE_LEN=%d" % n, "VERIF_ALIAS_KEY=1"], replace=[f + "xor_tk1"], must_have=PC, replay=R + "_tweak",
          timeout=1800, note="tweak length %d (case split R8); NULL or non-NULL tweak; arbitrary previous tweak; xor_tk1 replaced by its contract" % n)
    J(s + "set_tweak.invalid", ["C04", "C14"], H, "h_set_tweak", enforce=f + "set_tweak",
      defs=["VERIF_CASE_INVALID=1", "VERIF_ALIAS_KEY=1"], replace=[f + "xor_tk1"], must_have=PC, replay=R + "_tweak",
      note="tweak length 0 or > block (symbolic): returns 0, empty frame")

# ------------------------------------------------------------------ generic CTR back ends (3 ciphers)
MF = ["--malloc-may-fail", "--malloc-fail-null"]
for (fam, B) in (("skinny128", 16), ("skinny64", 8), ("mantis", 8)):
    HC = "h_%s_ctr.c" % fam
    c = {"skinny128": "c128.", "skinny64": "c64.", "mantis": "cm."}[fam]
    P = fam + "_ctr_def"
    R = {"skinny128": "ctr128", "skinny64": "ctr64", "mantis": "ctrm"}[fam]
    J(c + "def_init", ["C15", "C16", "C11"], HC, "h_def_init", enforce=P + "_init", cbmc=MF,
      must_have=PC, replay=R + "_life", note="calloc may fail: 0 and nothing allocated; else fresh zeroed context, offset = block")
    J(c + "def_cleanup", ["C15", "C17"], HC, "h_def_cleanup", enforce=P + "_cleanup",
      replace=["skinny_cleanse"], must_have=PC + ["C17 erasure"], replay=R + "_life,erase",
      note="free() redirected to a checker asserting the whole context is zero at the moment of release; freed exactly once; NULL ctx: empty frame")
    if fam != "mantis":
        J(c + "def_set_key", ["C10", "C14", "C05"], HC, "h_def_set_key", enforce=P + "_set_key",
          replace=[fam + "_set_key"], must_have=PC, replay=R + "_life")
        J(c + "def_set_tweaked_key", ["C10", "C14", "C04"], HC, "h_def_set_tweaked_key", enforce=P + "_set_tweaked_key",
          replace=[fam + "_set_tweaked_key"], must_have=PC, replay=R + "_life")
        J(c + "def_set_tweak", ["C14", "C04"], HC, "h_def_set_tweak", enforce=P + "_set_tweak",
          replace=[fam + "_set_tweak"], must_have=PC, replay=R + "_life")
        E = fam + "_ecb_encrypt"
        INC = fam + "_inc_counter"
        XB = fam + "_xor"
    else:
        J(c + "def_set_key.len16", ["C10", "C14", "C05", "C02"], HC, "h_def_set_key", enforce=P + "_set_key", defs=["VERIF_CASE_LEN=16"],
          replace=["mantis_set_key"], must_have=PC, replay=R + "_life")
        J(c + "def_set_key.invalid", ["C10", "C14", "C05", "C02"], HC, "h_def_set_key", enforce=P + "_set_key", defs=["VERIF_CASE_INVALID=1"],
          replace=["mantis_set_key"], must_have=PC, replay=R + "_life")
        J(c + "def_set_tweak", ["C14", "C02"], HC, "h_def_set_tweak", enforce=P + "_set_tweak",
          replace=["mantis_set_tweak"], must_have=PC, replay=R + "_life")
        E = "mantis_ecb_crypt"
        INC = "skinny64_inc_counter"
        XB = "skinny64_xor"
    for n in range(0, B + 1):
        J(c + "def_set_counter.len%d" % n, ["C05", "C14"], HC, "h_def_set_counter", enforce=P + "_set_counter",
          defs=["VERIF_CASE_LEN=%d" % n], must_have=PC, replay=R, note="counter length %d; NULL or not" % n)
    J(c + "def_set_counter.invalid", ["C05", "C14"], HC, "h_def_set_counter", enforce=P + "_set_counter",
      defs=["VERIF_CASE_INVALID=1"], must_have=PC, replay=R)
    J(c + "def_encrypt", ["C05", "C09", "C14"], HC, "h_def_encrypt", enforce=P + "_encrypt",
      defs=["VERIF_ROLE_CTR=1"], replace=[E, INC, XB, "skinny_xor"],
      must_have=LC + PC + ["ptr-norm"], replay=R, timeout=1800,
      note="coverage layer: every data byte is combined exactly once with the keystream byte at the matching absolute "
           "position; size <= 2^40 symbolic; in-place or disjoint; NULL arguments -> 0 with empty frame")

# ------------------------------------------------------------------ MANTIS single block
HM = "h_mantis_cipher.c"
J("m.ecb_crypt", ["C02", "C09", "C11", "C12"], HM, "h_ecb_crypt", enforce="mantis_ecb_crypt",
  must_have=LC + PC, replay="mantis", timeout=1800,
  note="forward and reflected loops in lock-step with the paper's MANTIS-r steps; stored tweak")
J("m.ecb_crypt_tweaked", ["C02", "C09", "C11", "C12"], HM, "h_ecb_crypt_tweaked", enforce="mantis_ecb_crypt_tweaked",
  must_have=LC + PC, replay="mantis", timeout=1800, note="same with the explicit per-call tweak")
J("m.set_key.len16", ["C02", "C10", "C14", "C11"], HM, "h_set_key", enforce="mantis_set_key", defs=["VERIF_CASE_LEN=16"], unwind=10, loops=False,
  must_have=PC, replay="mantis,reject",
  note="16-byte key; k0, k1, k0' = (k0>>>1)^(k0>>63), decrypt mode swaps k0/k0' and xors alpha; zero tweak; the 8-iteration rotate loop is unwound (program-constant bound, unwinding assertion on)",
  bounded=None)
J("m.set_key.invalid", ["C02", "C10", "C14", "C11"], HM, "h_set_key", enforce="mantis_set_key", defs=["VERIF_CASE_INVALID=1"], unwind=10, loops=False,
  must_have=PC, replay="mantis,reject",
  note="any other key size (symbolic): rejected, empty frame; k0, k1, k0' = (k0>>>1)^(k0>>63), decrypt mode swaps k0/k0' and xors alpha; zero tweak; the 8-iteration rotate loop is unwound (program-constant bound, unwinding assertion on)",
  bounded=None)
J("m.set_tweak", ["C02", "C14", "C11"], HM, "h_set_tweak", enforce="mantis_set_tweak", must_have=PC, replay="mantis,reject")
J("m.swap_modes", ["C03", "C11"], HM, "h_swap_modes", enforce="mantis_swap_modes", must_have=PC, replay="mantis")


# ------------------------------------------------------------------ helpers of skinny-internal.h (layer A)
HI = "h_internal.c"
J("i.cleanse", ["C17"], HI, "h_cleanse", enforce="skinny_cleanse", must_have=LC + PC, replay="erase",
  note="volatile walking pointer; symbolic size <= 4096; every byte zero (witness), nothing else written")
J("i.xor", ["C05", "C09"], HI, "h_xor", enforce="skinny_xor", must_have=LC + PC, replay="ctr128",
  note="symbolic size <= 128; in-place or disjoint; witness byte")
J("i.xor128", ["C05", "C09", "C12"], HI, "h_xor128", enforce="skinny128_xor", must_have=PC, replay="ctr128")
J("i.xor64", ["C05", "C09", "C12"], HI, "h_xor64", enforce="skinny64_xor", must_have=PC, replay="ctr64")
J("i.inc128", ["C05"], HI, "h_inc128", enforce="skinny128_inc_counter", loops=False, unwind=17, must_have=PC, replay="ctr128",
  note="16-iteration loop (program-constant bound) unwound with unwinding assertion: complete; big-endian add mod 2^128")
J("i.inc64", ["C05"], HI, "h_inc64", enforce="skinny64_inc_counter", loops=False, unwind=9, must_have=PC, replay="ctr64",
  note="8-iteration loop unwound with unwinding assertion: complete; big-endian add mod 2^64")

# ------------------------------------------------------------------ parallel ECB front ends (3 ciphers)
for (fam, B) in (("skinny128", 16), ("skinny64", 8), ("mantis", 8)):
    HP = "h_%s_parallel.c" % fam
    c = {"skinny128": "p128.", "skinny64": "p64.", "mantis": "pm."}[fam]
    P = fam + "_parallel_ecb"
    R = {"skinny128": "par128", "skinny64": "par64", "mantis": "parm"}[fam]
    HAS = ["_skinny_has_vec128", "_skinny_has_vec256"] if fam == "skinny128" else ["_skinny_has_vec128"]
    J(c + "init", ["C07", "C13", "C14", "C15", "C16", "C11"], HP, "h_init", enforce=P + "_init", cbmc=MF, replace=HAS,
      must_have=PC, replay=R + "_life",
      note="NULL -> 0; calloc failure -> 0 with inert object; success: zeroed schedule, back end = widest offered by the CPU model, parallel_size matches")
    J(c + "cleanup", ["C15", "C17"], HP, "h_cleanup", enforce=P + "_cleanup", replace=["skinny_cleanse"],
      must_have=PC + ["C17 erasure"], replay=R + "_life,erase")
    for (tag, dfs) in ((("", []),) if fam != "mantis" else ((".len16", ["VERIF_CASE_LEN=16"]), (".invalid", ["VERIF_CASE_INVALID=1"]))):
        J(c + "set_key" + tag, ["C10", "C14"], HP, "h_set_key", enforce=P + "_set_key", defs=dfs,
          replace=[fam + "_set_key"], must_have=PC, replay=R + "_life")
    if fam == "mantis":
        J(c + "swap_modes", ["C03", "C14"], HP, "h_swap_modes", enforce=P + "_swap_modes", replace=["mantis_swap_modes"],
          must_have=PC, replay=R + "_life")
        J(c + "crypt", ["C07", "C09", "C14", "C03"], HP, "h_crypt", enforce=P + "_crypt",
          replace=["_mantis_parallel_crypt_vec128", "mantis_ecb_crypt_tweaked", "mantis_set_tweak", "mantis_ecb_crypt", "mantis_set_key", "mantis_swap_modes"],
          must_have=LC + PC + ["ptr-norm"], replay=R, timeout=1800,
          note="coverage layer: block i processed under tweak i, exactly once, inside [0,size); real indirect call through the vtable")
    else:
        vec = ["_%s_parallel_%%s_vec128" % fam] + (["_%s_parallel_%%s_vec256" % fam] if fam == "skinny128" else [])
        allv = [v % d for v in vec for d in ("encrypt", "decrypt")] + [fam + "_ecb_encrypt", fam + "_ecb_decrypt"]
        for d in ("encrypt", "decrypt"):
            J(c + d, ["C07", "C09", "C14", "C03"], HP, "h_" + d, enforce=P + "_" + d, replace=allv,
              must_have=LC + PC + ["ptr-norm"], replay=R, timeout=1800,
              note="coverage layer: every block handed exactly once to a block function of the right direction at the right offset; "
                   "size <= 2^40 symbolic; non-multiples of the block -> 0 with empty frame; real indirect calls through the vtable")

# ------------------------------------------------------------------ public CTR dispatch wrappers
for (fam, stubs, slots) in (("skinny128", ["stub128", "stub256"], ["set_key", "set_tweaked_key", "set_tweak", "set_counter", "encrypt"]),
                            ("skinny64", ["stub128"], ["set_key", "set_tweaked_key", "set_tweak", "set_counter", "encrypt"]),
                            ("mantis", ["stub128"], ["set_key", "set_tweak", "set_counter", "encrypt"])):
    HC = "h_%s_ctr.c" % fam
    c = {"skinny128": "w128.", "skinny64": "w64.", "mantis": "wm."}[fam]
    R = {"skinny128": "ctr128", "skinny64": "ctr64", "mantis": "ctrm"}[fam]
    be = [fam + "_ctr_def"] + stubs
    # function-pointer removal considers every address-taken function with a 4-/3-argument shape a candidate,
    # so every back-end operation is replaced by its (log) contract in every wrapper job
    ALLBE = [b + "_" + x for b in be for x in ["init", "cleanup"] + slots]
    HAS = ["_skinny_has_vec128", "_skinny_has_vec256"] if fam == "skinny128" else ["_skinny_has_vec128"]
    J(c + "init", ["C13", "C14", "C15", "C16", "C06"], HC, "h_pub_init", enforce=fam + "_ctr_init", defs=["VERIF_ROLE_WRAP=1"],
      replace=ALLBE + HAS, must_have=PC, replay=R + "_life",
      note="NULL -> 0; widest back end offered by the CPU model, its init called once; failure of the back end's allocation leaves the handle inert (ctx == NULL)")
    J(c + "cleanup", ["C14", "C15", "C06"], HC, "h_pub_cleanup", enforce=fam + "_ctr_cleanup", defs=["VERIF_ROLE_WRAP=1"],
      replace=ALLBE, must_have=PC, replay=R + "_life",
      note="NULL / zeroed / cleaned-up object: nothing happens; else the object's own back end cleans up once and the vtable is reset")
    for sl in slots:
        J(c + sl, ["C14", "C15", "C06"], HC, "h_pub_" + sl, enforce=fam + "_ctr_" + sl, defs=["VERIF_ROLE_WRAP=1"],
          replace=ALLBE, must_have=PC, replay=R + "_life",
          note="NULL / zeroed / cleaned-up object -> 0 and nothing called; else exactly one call of the same operation of the object's own back end with the same arguments, result passed through")

# ------------------------------------------------------------------ CPU probes and aligned allocator (skinny-internal.c)
HIC = "h_internal_c.c"
VECF = ["-msse2", "-mavx2"]
J("cpu.has_vec128", ["C13", "C18"], HIC, "h_has128", enforce="_skinny_has_vec128", cflags=VECF, must_have=PC, replay="cpuid",
  note="result == SSE2 bit of the modelled CPU, for every modelled CPU and every content of the unspecified ECX")
J("cpu.has_vec256", ["C13", "C18"], HIC, "h_has256", enforce="_skinny_has_vec256", cflags=VECF, must_have=PC, replay="cpuid",
  replace=["skinny_xgetbv0"],
  note="result == (max leaf >= 7, OSXSAVE, AVX, XCR0[2:1] == 11b, leaf 7 SUB-LEAF 0 EBX[5]) of the modelled CPU; XGETBV wrapper replaced by its assumed contract")
J("cpu.calloc", ["C15", "C16"], HIC, "h_calloc", enforce="skinny_calloc", cflags=VECF, cbmc=MF, must_have=PC, replay="ctr128_life",
  note="aligned pointer inside the fresh block, base kept for free(); NULL and nothing stored on failure")

# ------------------------------------------------------------------ SIMD CTR back ends
SIMD = [("skinny128-ctr-vec128", "skinny128", "skinny128_ctr_vec128", 16, 4, "v128a.", ["-msse2"], "skinny128_ecb_encrypt_four", "skinny128_ctr_increment", "skinny128_xor", "ctr128"),
        ("skinny128-ctr-vec256", "skinny128", "skinny128_ctr_vec256", 16, 8, "v128b.", ["-mavx2"], "skinny128_ecb_encrypt_eight", "skinny128_ctr_increment", "skinny128_xor", "ctr128"),
        ("skinny64-ctr-vec128", "skinny64", "skinny64_ctr_vec128", 8, 8, "v64.", ["-msse2"], "skinny64_ecb_encrypt_eight", "skinny64_ctr_increment", "skinny64_xor", "ctr64"),
        ("mantis-ctr-vec128", "mantis", "mantis_ctr_vec128", 8, 8, "vm.", ["-msse2"], "mantis_ecb_encrypt_eight", "mantis_ctr_increment", "skinny64_xor", "ctrm")]
for (fn, fam, P, B, LANES, c, fl, EFN, INC, XB, R) in SIMD:
    HS = "h_%s.c" % fn.replace("-", "_")
    J(c + "init", ["C15", "C16", "C05", "C06", "C11"], HS, "h_init", enforce=P + "_init", cflags=fl, replace=["skinny_calloc", P + "_set_counter"],
      must_have=PC, replay=R + "_life," + R,
      note="skinny_calloc replaced by its contract (may return NULL; layout: aligned pointer == block base); success: base pointer kept, offset = batch, witness lane j holds counter j (the back end's own set_counter replaced by its contract)")
    J(c + "cleanup", ["C15", "C17"], HS, "h_cleanup", enforce=P + "_cleanup", cflags=fl, replace=["skinny_cleanse"],
      must_have=PC + ["C17 erasure"], replay=R + "_life,erase",
      note="base pointer read before the wipe, whole context wiped, base freed exactly once (layout: aligned pointer == block base)")
    J(c + "cleanup.off16", ["C15", "C17"], HS, "h_cleanup", enforce=P + "_cleanup", cflags=fl, replace=["skinny_cleanse"], defs=["VERIF_LAYOUT_OFF=16"],
      must_have=PC + ["C17 erasure"], replay=R + "_life,erase",
      note="the same for the layout aligned pointer == block base + 16 (live object): the CONTEXT is wiped - not the first bytes of the block -, the block base is what is freed")
    J(c + "increment", ["C05"], HS, "h_increment", enforce=INC, cflags=fl, loops=False, unwind=70, must_have=PC, replay=R,
      note="lane `column` += inc as a big-endian %d-bit integer incl. every carry and wrap; other lanes unchanged; %d-iteration loop unwound (complete; bound 70 so that a loop "
           "that a change makes data dependent is still executed to its end)" % (8 * B, B))
    for n in range(0, B + 1):
        J(c + "set_counter.len%d" % n, ["C05", "C06", "C14"], HS, "h_set_counter", enforce=P + "_set_counter", cflags=fl,
          defs=["VERIF_CASE_LEN=%d" % n], replace=[INC, "skinny_cleanse"], must_have=PC, replay=R, timeout=1800,
          note="counter length %d, NULL or not: witness lane j holds padded counter + j" % n)
    J(c + "set_counter.invalid", ["C05", "C14"], HS, "h_set_counter", enforce=P + "_set_counter", cflags=fl,
      defs=["VERIF_CASE_INVALID=1"], replace=[INC, "skinny_cleanse"], must_have=PC, replay=R, timeout=1800)
    J(c + "encrypt", ["C05", "C06", "C09", "C14"], HS, "h_encrypt", enforce=P + "_encrypt", cflags=fl,
      defs=["VERIF_ROLE_CTR=1"], replace=[EFN, INC, XB, "skinny_xor"], must_have=LC + PC + ["ptr-norm"], replay=R, timeout=2400,
      note="coverage layer with the lanes-consecutive representation invariant; size <= 2^40 symbolic")
    J(c + "eblock", ["C05", "C06", "C09", "C11"], HS, "h_eblock", enforce=EFN, cflags=fl, must_have=LC + PC, replay=R, timeout=2400,
      note="layer A: arbitrary witness lane of the keystream buffer == spec encryption of that lane's counter block (lock-step)")
    # C06 stream-position clause (known finding D5 on the current tree)
    if fam == "mantis":
        c06 = [("set_key", ["VERIF_CASE_LEN=16"], ["mantis_set_key"]), ("set_tweak", [], ["mantis_set_tweak"])]
    else:
        c06 = [("set_key", [], [fam + "_set_key"]), ("set_tweaked_key", [], [fam + "_set_tweaked_key"]), ("set_tweak", [], [fam + "_set_tweak"])]
    for (op, dfs, rep) in c06:
        J(c + op + ".c06", ["C06"], HS, "h_" + op, enforce=P + "_" + op, cflags=fl, defs=dfs + ["VERIF_C06_STREAM=1"], replace=rep,
          must_have=PC, replay="midstream",
          note="after a key/tweak change in mid-stream the next keystream block must be the one the generic back end uses (next block, not next batch)")
    if fam == "mantis":
        for (tag, dfs) in ((".len16", ["VERIF_CASE_LEN=16"]), (".invalid", ["VERIF_CASE_INVALID=1"])):
            J(c + "set_key" + tag, ["C10", "C14", "C06"], HS, "h_set_key", enforce=P + "_set_key", cflags=fl, defs=dfs,
              replace=["mantis_set_key"], must_have=PC, replay=R + "_life")
        J(c + "set_tweak", ["C14", "C06"], HS, "h_set_tweak", enforce=P + "_set_tweak", cflags=fl, replace=["mantis_set_tweak"], must_have=PC, replay=R + "_life")
    else:
        J(c + "set_key", ["C10", "C14", "C06"], HS, "h_set_key", enforce=P + "_set_key", cflags=fl, replace=[fam + "_set_key"], must_have=PC, replay=R + "_life")
        J(c + "set_tweaked_key", ["C10", "C14", "C06"], HS, "h_set_tweaked_key", enforce=P + "_set_tweaked_key", cflags=fl,
          replace=[fam + "_set_tweaked_key"], must_have=PC, replay=R + "_life")
        J(c + "set_tweak", ["C14", "C06", "C04"], HS, "h_set_tweak", enforce=P + "_set_tweak", cflags=fl, replace=[fam + "_set_tweak"], must_have=PC, replay=R + "_life")

# ------------------------------------------------------------------ vector block functions, layer A (witness lane)
for (fn, fl, pre, R) in (("skinny128-parallel-vec128", ["-msse2"], "pv128a.", "par128"), ("skinny128-parallel-vec256", ["-mavx2"], "pv128b.", "par128"),
                         ("skinny64-parallel-vec128", ["-msse2"], "pv64.", "par64")):
    HV = "h_%s.c" % fn.replace("-", "_")
    base = "_" + fn.replace("-parallel-", "_parallel_%s_")
    for d, dd in (("enc", "encrypt"), ("dec", "decrypt")):
        J(pre + dd, ["C07", "C03", "C06", "C09", "C11"], HV, "h_" + d, enforce=base % dd, cflags=fl, must_have=LC + PC, replay=R, timeout=3000,
          cbmc=(["--slice-formula"] if "vec256" in fn else []), tier=("thorough" if "vec256" in fn else "quick"),
          note="arbitrary witness lane in lock-step with the spec round / inverse round (vector >> rewritten lane-wise, 2.2a); all inputs loaded before the first store (in-place allowed)")
J("pvm.crypt", ["C07", "C03", "C06", "C09", "C11"], "h_mantis_parallel_vec128.c", "h_crypt", enforce="_mantis_parallel_crypt_vec128", cflags=["-msse2"],
  must_have=LC + PC, replay="parm", timeout=2400, note="witness lane L processed under tweak L, both loops in lock-step with the MANTIS steps")

# ------------------------------------------------------------------ loop-free inversion lemmas over the generated spec (plain CBMC)
for h, nt in (("h_skinny128_round_inverse", "all 2^(128+64) (state, round key) pairs"), ("h_skinny64_round_inverse", "all (state, round key) pairs"),
              ("h_mantis_step_inverse", "all states, key cells, tweaks and round-constant indices")):
    J("lemma." + h[2:], ["C03"], "h_lemmas.c", h, loops=False, must_have=["C03 lemma"], replay=None, functions=["spec (generated)"],
      note="loop-free, fully symbolic: " + nt)

# ------------------------------------------------------------------ C09: single-block functions under every overlap offset / alignment
for (pre, H, R, fns) in (("s128.", "h_skinny128_cipher.c", "skinny128", ["encrypt", "decrypt"]), ("s64.", "h_skinny64_cipher.c", "skinny64", ["encrypt", "decrypt"])):
    for d in fns:
        J(pre + "overlap_" + d, ["C09"], H, "h_overlap_" + d, enforce="verif_overlap_" + d, must_have=LC + PC, replay=R, timeout=2400,
          tier="quick" if (pre == "s64." or d == "encrypt") else "thorough", functions=[R + "_ecb_" + d],
          note="input = buf+a, output = buf+b in one object, a,b symbolic: every overlap and every alignment; writes confined to output[0..block)")
for d in ("crypt", "crypt_tweaked"):
    J("m.overlap_" + d, ["C09"], "h_mantis_cipher.c", "h_overlap_" + d, enforce="verif_overlap_" + d, must_have=LC + PC, replay="mantis", timeout=2400,
      tier="quick" if d == "crypt" else "thorough", functions=["mantis_ecb_" + d], note="every overlap offset and alignment of input/output")

# ------------------------------------------------------------------ C08: two-run self-composition with leakage ghost state
# (plain CBMC on the instrumented real code; loops are bounded by program constants / public parameters and are
# unwound with unwinding assertions; no contracts are active in this TU)
HCT = "h_ct.c"
_CT = ["C08 same branch/index observation", "C08 same number of observations"]
for (h, uw, nt) in (("h_ct_s128_encrypt", 57, "rounds <= 56 symbolic (public); schedule and block secret"), ("h_ct_s128_decrypt", 57, ""),
                    ("h_ct_s64_encrypt", 41, ""), ("h_ct_s64_decrypt", 41, ""), ("h_ct_mantis_crypt", 9, "rounds <= 8 public"),
                    ("h_ct_mantis_crypt_tweaked", 9, ""), ("h_ct_mantis_set_key", 10, "size, rounds, mode public; key bytes secret"),
                    ("h_ct_mantis_set_tweak_swap", 10, ""), ("h_ct_helpers", 18, "counter increments, block xors, skinny_xor / skinny_cleanse with public length <= 16")):
    J("ct." + h[5:], ["C08"], HCT, h, loops=False, unwind=uw, must_have=_CT, replay=None, functions=[h[5:]], timeout=2400,
      note="two runs, same public parameters, independent secrets: equal observation at an arbitrary witness position and equal count. " + nt)
for (fam, B, maxr) in (("s128", 16, 57), ("s64", 8, 41)):
    for n in sorted(set([B, B + 1, 2 * B - 1, 2 * B, 2 * B + 1, 3 * B - 1, 3 * B, 0, 3 * B + 1])):
        J("ct.%s_set_key.len%d" % (fam, n), ["C08"], HCT, "h_ct_%s_set_key" % fam, loops=False, unwind=maxr, defs=["CT_LEN=%d" % n], must_have=_CT,
          functions=["skinny%s_set_key" % fam[1:]], timeout=2400, tier="quick" if n in (B, 2 * B + 1, 3 * B) else "thorough",
          note="key length %d public, key bytes and previous schedule secret" % n)
    for n in sorted(set([B, B + 1, 2 * B - 1, 2 * B, 2 * B + 1])):
        J("ct.%s_set_tweaked_key.len%d" % (fam, n), ["C08"], HCT, "h_ct_%s_set_tweaked_key" % fam, loops=False, unwind=maxr, defs=["CT_LEN=%d" % n],
          must_have=_CT, functions=["skinny%s_set_tweaked_key" % fam[1:]], timeout=2400, tier="quick" if n in (B + 1,) else "thorough")
    for n in sorted(set([0, 1, B // 2, B, B + 1])):
        J("ct.%s_set_tweak.len%d" % (fam, n), ["C08"], HCT, "h_ct_%s_set_tweak" % fam, loops=False, unwind=maxr, defs=["CT_LEN=%d" % n],
          must_have=_CT, functions=["skinny%s_set_tweak" % fam[1:]], timeout=2400, tier="quick" if n in (B // 2,) else "thorough")

for (h, B) in (("h_ct_ctr128", 16), ("h_ct_ctr64", 8), ("h_ct_ctrm", 8)):
    for n in (0, 1, B - 1, B, B + 1, 2 * B + 1):
        for off in (0, 3, B):
            J("ct.%s.len%d.off%d" % (h[5:], n, off), ["C08"], "h_ct_modes.c", h, loops=False, unwind=2 * B + 6, defs=["CT_LEN=%d" % n, "CT_OFF=%d" % off],
              must_have=_CT, functions=[h[5:]], timeout=2400, tier="quick" if (n, off) in ((1, 3), (B + 1, B), (2 * B + 1, 0)) else "thorough",
              bounded="call size %d bytes, keystream-buffer offset %d (representative pair); complete over secrets" % (n, off),
              note="generic CTR encrypt: public = call size and buffer offset; secret = data, counter, buffered keystream, schedule")
for (h, B) in (("h_ct_setctr128", 16), ("h_ct_setctr64", 8), ("h_ct_setctrm", 8)):
    for n in (0, 1, B - 1, B, B + 1):
        J("ct.%s.len%d" % (h[5:], n), ["C08"], "h_ct_modes.c", h, loops=False, unwind=20, defs=["CT_LEN=%d" % n], must_have=_CT, functions=[h[5:]], timeout=2400,
          tier="quick" if n in (1, B) else "thorough",
          note="set_counter: public = length %d and NULL-ness; secret = counter bytes and the previous context" % n)
for (h, uw) in (("h_ct_par128", 8), ("h_ct_parm", 8)):
    J("ct." + h[5:], ["C08"], "h_ct_modes.c", h, loops=False, unwind=uw, must_have=_CT, functions=[h[5:]], timeout=2400,
      bounded="parallel sizes <= 48 / 24 bytes symbolic; complete over secrets",
      note="parallel dispatchers without a vector back end (public = size, direction)")
# (the Skinny-128 / Skinny-64 vector functions were tried too: symbolic execution of 2 x 56 / 2 x 40 unwound vector
#  rounds did not finish within 40 minutes, so only the 8-round Mantis vector function carries a C08 job)
for (tag, dfs, uw) in (("mantis", [], 9),):
    J("ct.vec128_" + tag, ["C08"], "h_ct_vec128.c", "h_ct_vec", loops=False, unwind=uw, defs=dfs, cflags=["-msse2"], must_have=_CT,
      functions=["vector block functions (%s, 128-bit)" % tag], timeout=3600, tier="thorough",
      note="vector block functions: rounds public, schedule / data / tweaks secret")

# Skinny vector block functions (128-bit and 256-bit back ends): C08 for EVERY round count by a loop contract on the round
# loop of the two-run self-composition (harness/h_ct_vecloop.c): one observation (the loop condition) per iteration, the
# witness record of run 1 preserved through run 2, data path havocked and unconstrained.  The `.r2` companions unwind
# rounds <= 2 without any loop contract: bounded, but a failure there is a concrete two-run trace through the real loop.
for (tag, d, fl, fn) in (("s128a", "CT_VEC_S128", ["-msse2"], "_skinny128_parallel_%s_vec128"),
                         ("s64", "CT_VEC_S64", ["-msse2"], "_skinny64_parallel_%s_vec128")):
    # (("s128b", "CT_VEC_S128B", ["-mavx2"], "_skinny128_parallel_%s_vec256") is supported by the harness but not registered: CBMC's
    #  "Generic Property Instrumentation" of the 8-lane functions did not finish within 30 minutes of CPU time, with or without loop contract)
    for (dr, dd) in (("encrypt", []), ("decrypt", ["CT_DIR_DEC=1"])):
        J("ct.vecloop_%s.%s" % (tag, dr), ["C08"], "h_ct_vecloop.c", "h_ct_vecloop", loops=True, defs=[d + "=1"] + dd, cflags=fl,
          must_have=_CT + LC, functions=[fn % dr], timeout=(3600 if tag == "s128b" else 2400), tier=("thorough" if tag == "s128b" else "quick"),
          note="loop contract (unbounded in the round count): observations so far == n0 + (rounds - index); run 1's witness record is "
               "'condition true' inside the loop's span and untouched outside it; run 2 leaves it untouched; rows/temp havocked: "
               "public = round count, secret = schedule, blocks, previous output")
        J("ct.vecloop_%s.%s.r2" % (tag, dr), ["C08"], "h_ct_vecloop.c", "h_ct_vecloop", loops=False, unwind=3, defs=[d + "=1", "CT_BOUNDED=2"] + dd,
          cflags=fl, must_have=_CT, functions=[fn % dr], timeout=(3600 if tag == "s128b" else 2400), tier=("thorough" if tag == "s128b" else "quick"),
          bounded="rounds <= 2 unwound (companion of the loop-contract job: turns a broken loop proof into a concrete two-run trace); complete over secrets",
          note="same harness without the loop contract, rounds <= 2")

# ------------------------------------------------------------------ C20: example tools against the ghost file model
_EXLIB_CTR = ["parse_options", "skinny128_ctr_init", "skinny64_ctr_init", "skinny128_ctr_cleanup", "skinny64_ctr_cleanup", "skinny128_ctr_set_key",
              "skinny64_ctr_set_key", "skinny128_ctr_set_counter", "skinny64_ctr_set_counter", "skinny128_ctr_encrypt", "skinny64_ctr_encrypt"]
J("ex.ctr_main", ["C20"], "h_ex_ctr.c", "h_main", enforce="skinny_ctr_main", replace=_EXLIB_CTR, must_have=LC + PC + ["C20 "], replay="tools",
  functions=["main (skinny-ctr.c)"], timeout=1800,
  note="every input length (symbolic, unbounded): bytes written == bytes read, chunk by chunk at the same file position, after the library call on exactly that chunk; files closed; invalid options: exit 1 before the output is opened")

_EXLIB_ECB = ["parse_options"] + [f % b for b in ("128", "64") for f in ("skinny%s_parallel_ecb_init", "skinny%s_parallel_ecb_cleanup", "skinny%s_parallel_ecb_set_key",
                                                                          "skinny%s_parallel_ecb_encrypt", "skinny%s_parallel_ecb_decrypt")]
J("ex.ecb_main", ["C20"], "h_ex_ecb.c", "h_main", enforce="skinny_ecb_main", replace=_EXLIB_ECB, must_have=LC + PC + ["C20 "], replay="tools",
  functions=["main (skinny-ecb.c)"], timeout=1800,
  note="every input length: whole blocks of every chunk transformed in the direction of -d and written at the position they were read from; trailing partial block dropped; files closed; objects cleaned up")

_EXLIB_TW = ["parse_options", "increment_tweak"] + [f % b for b in ("128", "64") for f in ("skinny%s_set_tweaked_key", "skinny%s_set_tweak", "skinny%s_ecb_encrypt", "skinny%s_ecb_decrypt")]
J("ex.tweak_main", ["C20"], "h_ex_tweak.c", "h_main", enforce="skinny_tweak_main", replace=_EXLIB_TW, must_have=LC + PC + ["C20 "], replay="tools",
  functions=["main (skinny-tweak.c)"], timeout=1800,
  note="every input length: every whole block transformed once, in order, in the direction of -d, each under a freshly set tweak (increment_tweak then set_tweak between blocks); written at the position read; trailing partial block dropped")
J("ex.increment_tweak", ["C20"], "h_ex_tweak.c", "h_increment", enforce="increment_tweak", defs=["VERIF_EX_INCREMENT=1"], loops=False, unwind=18, must_have=PC, replay="tools",
  note="tweak (1..16 bytes, symbolic length) += 1 as a big-endian integer modulo 2^(8 n); 16-iteration loop unwound")

J("ex.parse_hex", ["C20"], "h_ex_options.c", "h_parse_hex", enforce="parse_hex", loops=False, unwind=10, must_have=PC, replay="tools",
  bounded="argument strings of at most 8 characters (the string walk is unwound with an unwinding assertion); max_len symbolic <= 48",
  note="writes only buf[0..max_len), returns at most max_len, for every string content incl. separators, odd digit counts and invalid characters")
J("ex.parse_options", ["C20"], "h_ex_options.c", "h_parse_options", enforce="parse_options", defs=["VERIF_EX_PARSE_OPTIONS=1"], replace=["parse_hex", "usage", "invalid_key_size", "strcmp"], loops=True,
  must_have=LC + PC, replay="tools", timeout=1800,
  note="getopt replaced by its model (any option sequence, unbounded); returns 1 only with block size 8/16, key length within the LIBRARY's range for the tool's mode, counter/tweak length 1..block, both file names taken from argv")

for (tag, d, fl, B, LANES, EFN) in (("s128a", "CT_SIMD_S128A", ["-msse2"], 16, 4, "skinny128_ecb_encrypt_four"), ("s128b", "CT_SIMD_S128B", ["-mavx2"], 16, 8, "skinny128_ecb_encrypt_eight"),
                                ("s64", "CT_SIMD_S64", ["-msse2"], 8, 8, "skinny64_ecb_encrypt_eight"), ("m", "CT_SIMD_M", ["-msse2"], 8, 8, "mantis_ecb_encrypt_eight")):
    J("ct.simd_%s.increment" % tag, ["C08"], "h_ct_simd.c", "h_ct_increment", loops=False, unwind=B + 2, defs=[d + "=1"], cflags=fl, must_have=_CT,
      functions=["lane counter increment (%s)" % tag], timeout=1800, note="public: lane and increment; secret: all lane counters")
    for n in (1, B):
        J("ct.simd_%s.set_counter.len%d" % (tag, n), ["C08"], "h_ct_simd.c", "h_ct_set_counter", loops=False, unwind=B + 4, defs=[d + "=1", "CT_LEN=%d" % n], cflags=fl,
          must_have=_CT, functions=["SIMD set_counter (%s)" % tag], timeout=1800, tier="quick" if n == 1 else "thorough")
    BATCH = B * LANES
    for (n, off) in ((1, 5), (BATCH + 1, BATCH), (B + 3, BATCH - 2)):
        J("ct.simd_%s.encrypt.len%d.off%d" % (tag, n, off), ["C08"], "h_ct_simd.c", "h_ct_encrypt", loops=False, unwind=BATCH + 6, defs=[d + "=1", "CT_LEN=%d" % n, "CT_OFF=%d" % off],
          cflags=fl, must_have=_CT, strip_bodies=[EFN], functions=["SIMD CTR encrypt loop (%s)" % tag], timeout=2400,
          tier="quick" if (n, off) == (BATCH + 1, BATCH) and tag in ("s128a", "s64") else "thorough",
          bounded="call size %d, buffer offset %d (representative pair); vector block function body removed" % (n, off))


# ------------------------------------------------------------------ C19: the Arduino port (extracted to C on every run)
HA = "h_ard_skinny128.c"
_A128 = (("Skinny128_128", 16, 0), ("Skinny128_256", 32, 0), ("Skinny128_384", 48, 0),
         ("Skinny128_256_Tweaked", 16, 1), ("Skinny128_384_Tweaked", 32, 1))
for (leaf, klen, tw) in _A128:
    a = "a128.%s." % leaf.replace("Skinny128_", "")
    D = ['VERIF_ARD_TU="arduino/%s.c"' % leaf, "VERIF_ARD_LEAF=%s" % leaf, "VERIF_ARD_KEYLEN=%d" % klen] + (["VERIF_ARD_TWEAKED=1"] if tw else [])
    RA = "ard128"
    J(a + "ctor", ["C19"], HA, "h_ctor", defs=D, loops=False, must_have=["C19 constructor"], replay=RA,
      note="constructor chain evaluated by the extractor: s == sched, r == rounds of the library variant, schedule size")
    J(a + "encryptBlock", ["C19"], HA, "h_encryptBlock", enforce="Skinny128__encryptBlock", defs=D, must_have=LC + PC, replay=RA)
    J(a + "decryptBlock", ["C19"], HA, "h_decryptBlock", enforce="Skinny128__decryptBlock", defs=D, must_have=LC + PC, replay=RA)
    J(a + "setTK1", ["C19"], HA, "h_setTK1", enforce="Skinny128__setTK1", defs=D, must_have=LC + PC, replay=RA, timeout=1800)
    if klen + 16 * tw > 16:
        J(a + "setTK2", ["C19"], HA, "h_setTK2", enforce="Skinny128__setTK2", defs=D, must_have=LC + PC, replay=RA)
    if klen + 16 * tw > 32:
        J(a + "setTK3", ["C19"], HA, "h_setTK3", enforce="Skinny128__setTK3", defs=D, must_have=LC + PC, replay=RA)
    J(a + "clear", ["C19"], HA, "h_clear", enforce="Skinny128__clear", defs=D, must_have=PC, replay=RA,
      note="clean() of Crypto.cpp inlined with its loop contract; every schedule byte zero (witness byte)")
    TKA = ["Skinny128__setTK1", "Skinny128__setTK2", "Skinny128__setTK3"]
    J(a + "setKey", ["C19"], HA, "h_setKey", enforce=leaf + "__setKey", defs=D, loops=False,
      replace=TKA + (["Skinny128_Tweaked__resetTweak"] if tw else []), must_have=PC, replay=RA,
      note="key length check (symbolic length), round count and schedule word pair J of the corresponding library variant")
    if tw:
        J(a + "xorTK1", ["C19"], HA, "h_xorTK1", enforce="Skinny128__xorTK1", defs=D, must_have=LC + PC, replay=RA)
        J(a + "resetTweak", ["C19"], HA, "h_resetTweak", enforce="Skinny128_Tweaked__resetTweak", defs=D, loops=False,
          replace=["Skinny128__setTK1"], must_have=PC, replay=RA)
        J(a + "setTweak", ["C19"], HA, "h_setTweak", enforce="Skinny128_Tweaked__setTweak", defs=D, loops=False,
          replace=["Skinny128__xorTK1"], must_have=PC, replay=RA,
          note="history independence (key part of the schedule unchanged for every previous tweak); null tweak = all-zero")
        J(a + "tclear", ["C19"], HA, "h_tclear", enforce="Skinny128_Tweaked__clear", defs=D,
          replace=["Skinny128__clear"], must_have=PC, replay=RA)


HA64 = "h_ard_skinny64.c"
_A64 = (("Skinny64_64", 8, 0), ("Skinny64_128", 16, 0), ("Skinny64_192", 24, 0),
         ("Skinny64_128_Tweaked", 8, 1), ("Skinny64_192_Tweaked", 16, 1))
for (leaf, klen, tw) in _A64:
    a = "a64.%s." % leaf.replace("Skinny64_", "")
    D = ['VERIF_ARD_TU="arduino/%s.c"' % leaf, "VERIF_ARD_LEAF=%s" % leaf, "VERIF_ARD_KEYLEN=%d" % klen] + (["VERIF_ARD_TWEAKED=1"] if tw else [])
    RA = "ard64"
    J(a + "ctor", ["C19"], HA64, "h_ctor", defs=D, loops=False, must_have=["C19 constructor"], replay=RA,
      note="constructor chain evaluated by the extractor: s == sched, r == rounds of the library variant, schedule size")
    J(a + "encryptBlock", ["C19"], HA64, "h_encryptBlock", enforce="Skinny64__encryptBlock", defs=D, must_have=LC + PC, replay=RA)
    J(a + "decryptBlock", ["C19"], HA64, "h_decryptBlock", enforce="Skinny64__decryptBlock", defs=D, must_have=LC + PC, replay=RA)
    J(a + "setTK1", ["C19"], HA64, "h_setTK1", enforce="Skinny64__setTK1", defs=D, must_have=LC + PC, replay=RA, timeout=1800)
    if klen + 8 * tw > 8:
        J(a + "setTK2", ["C19"], HA64, "h_setTK2", enforce="Skinny64__setTK2", defs=D, must_have=LC + PC, replay=RA)
    if klen + 8 * tw > 16:
        J(a + "setTK3", ["C19"], HA64, "h_setTK3", enforce="Skinny64__setTK3", defs=D, must_have=LC + PC, replay=RA)
    J(a + "clear", ["C19"], HA64, "h_clear", enforce="Skinny64__clear", defs=D, must_have=PC, replay=RA,
      note="clean() of Crypto.cpp inlined with its loop contract; every schedule byte zero (witness byte)")
    TKA = ["Skinny64__setTK1", "Skinny64__setTK2", "Skinny64__setTK3"]
    J(a + "setKey", ["C19"], HA64, "h_setKey", enforce=leaf + "__setKey", defs=D, loops=False,
      replace=TKA + (["Skinny64_Tweaked__resetTweak"] if tw else []), must_have=PC, replay=RA,
      note="key length check (symbolic length), round count and schedule word pair J of the corresponding library variant")
    if tw:
        J(a + "xorTK1", ["C19"], HA64, "h_xorTK1", enforce="Skinny64__xorTK1", defs=D, must_have=LC + PC, replay=RA)
        J(a + "resetTweak", ["C19"], HA64, "h_resetTweak", enforce="Skinny64_Tweaked__resetTweak", defs=D, loops=False,
          replace=["Skinny64__setTK1"], must_have=PC, replay=RA)
        J(a + "setTweak", ["C19"], HA64, "h_setTweak", enforce="Skinny64_Tweaked__setTweak", defs=D, loops=False,
          replace=["Skinny64__xorTK1"], must_have=PC, replay=RA,
          note="history independence (key part of the schedule unchanged for every previous tweak); null tweak = all-zero")
        J(a + "tclear", ["C19"], HA64, "h_tclear", enforce="Skinny64_Tweaked__clear", defs=D,
          replace=["Skinny64__clear"], must_have=PC, replay=RA)


HAM = "h_ard_mantis8.c"
J("am.sizes", ["C19"], HAM, "h_sizes", loops=False, must_have=["C19 constructor"], replay="ardm")
J("am.encryptBlock", ["C19"], HAM, "h_encryptBlock", enforce="Mantis8__encryptBlock", must_have=LC + PC, replay="ardm", timeout=1800,
  note="forward and reflected loops in lock-step with the paper's MANTIS-8 steps; arbitrary object state")
J("am.decryptBlock", ["C19"], HAM, "h_decryptBlock", enforce="Mantis8__decryptBlock", replace=["Mantis8__encryptBlock"], loops=False,
  must_have=PC, replay="ardm", note="delegates to the same core")
J("am.setKey", ["C19"], HAM, "h_setKey", enforce="Mantis8__setKey", loops=False, unwind=10, must_have=PC, replay="ardm",
  note="the 8-iteration rotate loop and the 8-byte clean() loop are unwound (program-constant bounds, unwinding assertions on)")
J("am.setTweak", ["C19"], HAM, "h_setTweak", enforce="Mantis8__setTweak", loops=False, must_have=PC, replay="ardm")
J("am.swapModes", ["C19"], HAM, "h_swapModes", enforce="Mantis8__swapModes", loops=False, must_have=PC, replay="ardm")
J("am.clear", ["C19"], HAM, "h_clear", enforce="Mantis8__clear", must_have=PC, replay="ardm")


HAC = "h_ard_ctr.c"
_BC = ["BlockCipher__blockSize", "BlockCipher__keySize", "BlockCipher__setKey", "BlockCipher__encryptBlock", "BlockCipher__decryptBlock", "BlockCipher__clear"]
J("actr.ctor", ["C19"], HAC, "h_ctor", loops=False, must_have=["C19 constructor"], replay="ardctr")
J("actr.setCounterSize", ["C19"], HAC, "h_setCounterSize", enforce="CTRCommon__setCounterSize", loops=False, must_have=PC, replay="ardctr")
J("actr.setKey", ["C19"], HAC, "h_setKey", enforce="CTRCommon__setKey", replace=_BC, loops=False, must_have=PC, replay="ardctr",
  note="delegation to the cipher (exactly once, same arguments) and keystream reset on a successful key change, as every *_ctr_def_set_key of the library")
J("actr.setIV", ["C19"], HAC, "h_setIV", enforce="CTRCommon__setIV", loops=False, must_have=PC, replay="ardctr")
J("actr.clear", ["C19"], HAC, "h_clear", enforce="CTRCommon__clear", replace=_BC, must_have=PC, replay="ardctr")
J("actr.encrypt", ["C19"], HAC, "h_encrypt", enforce="CTRCommon__encrypt", replace=_BC, must_have=LC + PC + ["ptr-norm"], replay="ardctr", timeout=3000,
  note="witness data byte W and its keystream block KB; big-endian counter arithmetic on the low 16 - counterStart bytes in 128-bit ghost arithmetic; "
       "size <= 2^40 symbolic; in place or disjoint")
J("actr.decrypt", ["C19"], HAC, "h_decrypt", enforce="CTRCommon__decrypt", replace=["CTRCommon__encrypt"], loops=False, must_have=PC, replay="ardctr")


# The extraction flattens the C++ object into separate file-scope objects, so CBMC's object-bounds check on pointer
# ARITHMETIC (not on dereferences, which stay checked) is not meaningful there: Skinny128::decryptBlock leaves its
# loop with `schedule -= 2` pointing two words before sched[], which in the real object is still inside the object.
for _j in JOBS:
    if _j.id.startswith(("a128.", "a64.", "am.", "actr.")):
        _j.drop_checks = ["--pointer-overflow-check"]


# ------------------------------------------------------------------ loop handling policy
# Jobs whose enforced function (with its inlined callees) carries NO loop contract are run WITHOUT
# --apply-loop-contracts and with --unwind 70 --unwinding-assertions instead: dfcc reports "local X is not
# assignable" for ANY loop without a contract once loop contracts are applied, which would turn a harmless
# refactoring that introduces a small loop (memcpy -> for) into a false alarm.  With unwinding such a loop is simply
# executed; a loop that cannot be unwound within 70 iterations fails its unwinding assertion, which the engine
# reports as UNDECIDED, never as a violation.
import re as _re
_LOOPY = _re.compile(r"(ecb_encrypt|ecb_decrypt|set_tk[123]$|xor_tk1$|\.def_encrypt$|^v\w+\.encrypt$|^p\w+\.(encrypt|decrypt|crypt)$|"
                     r"^a\w+\.\w+\.(encryptBlock|decryptBlock|setTK[123]|xorTK1|clear|tclear|clean)$|^am\.(encryptBlock|clear)$|^actr\.(encrypt|clear)$|^i\.(cleanse|xor)$|ecb_crypt|overlap_|^ct\.vecloop_\w+\.(encrypt|decrypt)$|^ex\.\w+_main$|^ex\.parse_options$|\.eblock$|^pv\w+\.|^lemma\.)")
for _j in JOBS:
    if _j.loops and not _LOOPY.search(_j.id):
        _j.loops = False
        _j.unwind = _j.unwind or 70
    elif _j.loops and _j.enforce and not _j.unwind:
        # loop-contract jobs: contracted loops are cut by the instrumentation; any OTHER loop (one that a change added and that
        # no contract knows) is executed with the same bound instead of being unwound without end
        _j.unwind = 70


# ------------------------------------------------------------------ C12: the same contracts under the other compile-time paths
# (hook H1: -DSKINNY_C_VERIF -DSKINNY_VERIF_<switch>=v).  Every path is proved against the SAME specification,
# hence all paths compute the same function.
import copy as _copy
_CFG_JOBS = ["ecb_encrypt", "ecb_decrypt", "set_tk1", "set_tk2", "set_tk3", "xor_tk1"]
_cfgs = [(w, u, e) for w in (0, 1) for u in (0, 1) for e in (0, 1) if (w, u, e) != (1, 1, 1)]
_quick_cfgs = {(0, 1, 1), (1, 0, 1), (0, 0, 0), (1, 0, 0)}    # (1,0,0): the 64-bit big-endian paths (round-2 seeded change C12-mantis-swap-modes-alpha-bigendian-64 lives only there)
for (w, u, e) in _cfgs:
    tag = "@w%du%de%d" % (w, u, e)
    dfs = ["SKINNY_C_VERIF=1", "SKINNY_VERIF_64BIT=%d" % w, "SKINNY_VERIF_UNALIGNED=%d" % u, "SKINNY_VERIF_LITTLE_ENDIAN=%d" % e]
    base_ids = ["s128." + x for x in _CFG_JOBS] + ["s64." + x for x in _CFG_JOBS] + \
               ["m.ecb_crypt", "m.ecb_crypt_tweaked", "m.set_key.len16", "m.set_tweak", "m.swap_modes", "i.xor128", "i.xor64", "i.inc128", "i.inc64", "i.cleanse", "i.xor"]
    # (every function of src/ that contains a configuration #if is in this list: round-5 seeded change C12-mantis-null-tweak-32bit-path
    #  sat in the SKINNY_64BIT=0 branch of mantis_set_tweak, which was not)
    for bid in base_ids:
        b = [j for j in JOBS if j.id == bid][0]
        nj = _copy.copy(b)
        nj.id = bid + tag
        # the same obligations are part of the conformance properties' THOROUGH tier (a fault that exists only on a
        # non-default compile-time path breaks C01/C02/C03 in that build); every-change tier: C12 only
        nj.props = ["C12"] + (["C01", "C03"] if bid.startswith(("s128.", "s64.")) else ["C02", "C03"] if bid.startswith("m.") else ["C17"] if bid == "i.cleanse" else ["C05"])
        # (round 6: no longer restricted to C12's every-change tier - the three quick configurations are part of the every-change tier of
        #  C01/C02/C03/C05 as well, so that a fault on a path the default build does not compile is seen by the property it breaks)
        nj.defs = list(b.defs) + dfs
        nj.tier = "quick" if (w, u, e) in _quick_cfgs and not bid.endswith("set_tk1") else "thorough"
        nj.note = (b.note + "; " if b.note else "") + "configuration 64BIT=%d UNALIGNED=%d LITTLE_ENDIAN=%d" % (w, u, e)
        JOBS.append(nj)


# C18: frames of the read-only block operations (empty on the shared schedule / object) and of the CPU probes
for _j in JOBS:
    if _re.search(r"^(s128|s64)\.ecb_(en|de)crypt$|^m\.ecb_crypt|^p(128|64|m)\.(encrypt|decrypt|crypt)$|^pv\w+\.|^cpu\.", _j.id) and "C18" not in _j.props:
        _j.props.append("C18")


# ------------------------------------------------------------------ tiers: quick = representatives of every case-split family
# (first, last and the boundaries), thorough = every case.  The union of the thorough cases is the full domain.
def _quick_case(jid):
    m = _re.search(r"\.(set_counter|set_tweak)\.len(\d+)$", jid)
    if m:
        B = 16 if ("128" in jid.split(".")[0]) else 8
        n = int(m.group(2))
        return n in ((0, 1, B - 1, B) if m.group(1) == "set_counter" else (1, B // 2, B))
    m = _re.search(r"\.set_key_inner\.([kt])(\d+)$", jid)
    if m:
        B = 16 if jid.startswith("s128") else 8
        n = int(m.group(2))
        return n in ((B, B + 1, 2 * B - 1, 2 * B, 2 * B + 1, 3 * B - 1, 3 * B) if m.group(1) == "k" else (B, B + 1, 2 * B - 1, 2 * B))
    return True


for _j in JOBS:
    if not _quick_case(_j.id.split("@")[0]):
        _j.tier = "thorough"
    if _j.id.startswith("v128b.") and _re.search(r"\.(set_counter\.len|eblock)", _j.id) and not _j.id.endswith((".len0", ".len16")):
        _j.tier = "thorough"   # the 256-bit back end: life cycle, lane increment, the encrypt loop and boundary cases stay in quick

    if _re.match(r"^pv\w+\.|^v\w+\.(eblock|encrypt)$|\.def_encrypt$", _j.id):
        # the slow vector / coverage proofs: every-change tier only for the properties they carry
        _j.quick_only_for = {"C07", "C05"}
    if _j.id in ("v128b.eblock", "pv128b.encrypt", "pv128b.decrypt"):
        _j.mem_gb = 40          # 8 lanes x 4 interleaved vectors: runs alone with a 40 GB limit
        _j.timeout = 7200
    if _j.id == "pv128a.encrypt":
        # 8.5 min on one core (sbox_four interleaves four vectors): part of the every-change tier of C07 only (it runs next to the other
        # jobs on its own core, inside the 900 s budget); every other property sees it in the thorough tier
        _j.quick_only_for = {"C07"}
    if _re.match(r"^pv(128a|64)\.decrypt$|^pvm\.crypt$", _j.id):
        # the vector inverse rounds are separate code from the scalar ones: C03's every-change tier must see them
        # (round-4 seeded change C03-vec128-inv-sbox-lane-mixup was missed by C03 quick, caught only by C07 quick / C03 thorough)
        _j.quick_only_for = {"C07", "C05", "C03"}

# C05 speaks about call sequences: "key and tweak in place before the first data call" - the key / tweak setters of every CTR
# back end and of the dispatcher must leave the counter alone and reset the keystream, which is what their frames and
# postconditions say (round-6 seeded change C05-skinny64-simd-set-key-wipes-counter was missed because these jobs were not listed
# under C05; C06 and C14 did report it).
for _j in JOBS:
    if _re.match(r"^(v128a|v128b|v64|vm|c128|c64|cm|w128|w64|wm)\.(def_)?set_(key|tweaked_key|tweak)(\.\w+)?$", _j.id) and not _j.id.endswith(".c06") \
            and "C05" not in _j.props:
        _j.props.append("C05")

# the key / tweak setters of the CTR back ends are replayed with the stream family as well (counter set before or after them)
for _j in JOBS:
    if _re.match(r"^(v128a|v128b|v64|vm|c128|c64|cm)\.(def_)?set_(key|tweaked_key|tweak)(\.\w+)?$", _j.id) and _j.replay and _j.replay.endswith("_life"):
        _j.replay = _j.replay + "," + _j.replay[:-5]

# Further listings found by auditing the job/property table (a job decides every property whose statement speaks about
# the function it proves; listing it under fewer properties only weakens that property's check):
def _also(rx, *props):
    for _j in JOBS:
        if _re.match(rx, _j.id) and not _j.id.endswith(".c06") and "@" not in _j.id:
            for _p in props:
                if _p not in _j.props:
                    _j.props.append(_p)


_also(r"^w(128|64|m)\.(init|set_counter|encrypt)$", "C05")                      # the public CTR entry points are part of every stream
_also(r"^(v128a|v128b|v64)\.set_tweaked_key$|^w(128|64)\.set_(tweak|tweaked_key)$", "C04")   # CTR tweak API delegates
_also(r"^vm\.set_(key|tweak)(\.\w+)?$|^wm\.set_(key|tweak)$", "C02")            # Mantis schedule through the CTR object
_also(r"^p(128|64|m)\.set_key(\.\w+)?$", "C07")                               # "under one key": the parallel object's key
_also(r"^w(128|64|m)\.set_(key|tweaked_key)$", "C10")                          # lengths are passed through unchanged
_also(r"^(v128a|v128b|v64|vm|c128|c64|cm)\.(def_)?(set_counter|set_key|set_tweaked_key|set_tweak)(\.\w+)?$", "C11")   # object state is a function of the arguments only
_also(r"^(v128a|v128b|v64|vm)\.(increment|eblock)$|^i\.(inc128|inc64|xor128|xor64|xor)$", "C11")
_also(r"^(v128a|v128b|v64|vm)\.(set_counter|set_key|set_tweaked_key|set_tweak|encrypt)(\.\w+)?$", "C15")   # between init and cleanup every operation must leave the allocation bookkeeping (base_ptr) alone: their frames say so
_also(r"^p(128|64|m)\.(set_key|encrypt|decrypt|crypt|swap_modes)(\.\w+)?$|^(c128|c64|cm)\.def_set_\w+(\.\w+)?$", "C15")

# Property groups: the properties about the CTR objects (stream C05, back-end independence C06, determinism C11, error contract C14,
# life cycle C15) are all statements about the same operations' contracts (postcondition + frame); every job on a CTR object's
# operation is listed under all of them.  Likewise the parallel ECB objects (C07, C03, C11, C14, C15) and the key / tweak
# set-up of the block ciphers (conformance C01/C02, tweak history C04, key lengths C10, determinism C11, error contract C14).
_also(r"^(v128a|v128b|v64|vm|c128|c64|cm)\.(def_)?(init|set_counter|set_key|set_tweaked_key|set_tweak|encrypt|increment)(\.\w+)?$", "C05", "C06", "C11", "C14", "C15")
_also(r"^w(128|64|m)\.\w+$", "C05", "C06", "C11", "C14", "C15")
_also(r"^p(128|64|m)\.(init|set_key|encrypt|decrypt|crypt|swap_modes)(\.\w+)?$", "C07", "C03", "C11", "C14", "C15")
_also(r"^(s128|s64)\.(set_key|set_key_inner|set_tweaked_key|set_tweak|set_tk[123]|xor_tk1)(\.\w+)?$", "C01", "C04", "C10", "C11", "C14")
_also(r"^m\.(set_key|set_tweak|swap_modes)(\.\w+)?$", "C02", "C03", "C10", "C11", "C14")

# C06 is decided as a corollary: every back end meets the SAME stream contracts.  All C05 obligations (generic back end, helpers,
# SIMD lane increment, set_counter, encrypt) are therefore obligations of C06 as well (round-5 seeded change
# C06-avx2-counter-wrap-carry-reentry was missed because the lane increment jobs were listed under C05 only).
for _j in JOBS:
    if "C05" in _j.props and "C06" not in _j.props and "@" not in _j.id:
        _j.props.append("C06")

# C09: the key / tweak / counter readers are bound to the exact extent the arguments announce
for _j in JOBS:
    if _re.search(r"\.(set_tk[123]|xor_tk1|set_key_inner\.\w+|set_key(\.\w+)?|set_tweaked_key|set_tweak\.\w+|set_counter\.\w+)$", _j.id.split("@")[0]) and "C09" not in _j.props and "@" not in _j.id and not _j.id.endswith(".c06"):
        _j.props.append("C09")


def by_id(i):
    for j in JOBS:
        if j.id == i:
            return j
    raise KeyError(i)
