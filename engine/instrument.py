#!/usr/bin/env python3
"""Mechanical, purely additive instrumentation of the real sources.

For every .c/.h file given, a copy is written in which *named, empty-by-default
macro tokens* are inserted at fixed syntactic positions of EVERY function
definition, loop and call statement:

  VC_<fn>            after the parameter list of the definition of <fn>
                     (function-contract position)
  VE_<fn>            first thing inside the body of <fn> (ghost entry statement)
  VP_<fn>_<n>        before the n-th loop of <fn> (textual order, 1-based)
  VL_<fn>_<n>        between the loop header `for (...)` / `while (...)` and its
                     body (loop-contract position)
  VT_<fn>_<n>        first thing inside the body of that loop
  VX_<fn>_<n>        after the closing brace of that loop
  VB_<fn>_<callee>_<k>  before the statement that contains the k-th call of
                     identifier <callee> inside <fn>
  VLK_B(e)           around every operand of the top-level && / || chain of every if / while / for
                     condition (branch observation point; default: (e))
  VLK_I(e)           around the index of every subscript whose index is not a compile-time
                     constant (address observation point; default: (e))

No token of the original text is changed, removed or reordered; original line
structure is kept (tokens are inserted on the same line).  With all macros
empty (contracts/verif_defaults.h) the text is token-identical to the
original, which the setup command checks by compiling the instrumented tree
natively and running the repository's tests.

The script also writes
  <out>/verif_defaults.h   `#ifndef X / #define X / #endif` for every token
  <out>/verif_points.json  the list of tokens per file
Exit status 3 on any parse irregularity (unbalanced braces):
the callers treat that as "extraction break" (UNDECIDED), never as violation.
"""
import json
import os
import re
import sys

KEYWORDS = {"if", "for", "while", "switch", "return", "sizeof", "do", "else",
            "defined", "__attribute__", "__asm__", "asm", "typeof",
            "__typeof__", "__builtin_constant_p"}


class Break(Exception):
    pass


def mask_source(text):
    """Return a string of the same length in which comments, string/char
    literals and preprocessor lines are blanked (newlines kept)."""
    out = list(text)
    i, n = 0, len(text)
    bol = True  # at beginning of line (only whitespace so far)
    while i < n:
        c = text[i]
        if c == "/" and i + 1 < n and text[i + 1] == "*":
            j = text.find("*/", i + 2)
            j = n if j < 0 else j + 2
            for k in range(i, j):
                if out[k] != "\n":
                    out[k] = " "
            i = j
            continue
        if c == "/" and i + 1 < n and text[i + 1] == "/":
            j = text.find("\n", i)
            j = n if j < 0 else j
            for k in range(i, j):
                out[k] = " "
            i = j
            continue
        if c == "#" and bol:
            # preprocessor line with continuations
            j = i
            while True:
                e = text.find("\n", j)
                if e < 0:
                    e = n
                    break
                if text[e - 1] == "\\":
                    j = e + 1
                    continue
                break
            for k in range(i, e):
                if out[k] != "\n":
                    out[k] = " "
            i = e
            continue
        if c == '"' or c == "'":
            q = c
            j = i + 1
            while j < n and text[j] != q:
                if text[j] == "\\":
                    j += 1
                j += 1
            for k in range(i, min(j + 1, n)):
                if out[k] != "\n":
                    out[k] = " "
            i = j + 1
            bol = False
            continue
        if c == "\n":
            bol = True
        elif not c.isspace():
            bol = False
        i += 1
    return "".join(out)


def match_forward(m, i, open_c, close_c):
    """m[i] == open_c; return index of the matching close."""
    depth = 0
    n = len(m)
    while i < n:
        if m[i] == open_c:
            depth += 1
        elif m[i] == close_c:
            depth -= 1
            if depth == 0:
                return i
        i += 1
    raise Break("unbalanced %s" % open_c)


def skip_ws(m, i):
    n = len(m)
    while i < n and m[i].isspace():
        i += 1
    return i


IDENT = re.compile(r"[A-Za-z_][A-Za-z_0-9]*")


def find_functions(m):
    """Yield (name, lparen, rparen, lbrace, rbrace) for every function
    definition at brace depth 0."""
    res = []
    i, n = 0, len(m)
    depth = 0
    while i < n:
        c = m[i]
        if c == "{":
            depth += 1
            i += 1
            continue
        if c == "}":
            depth -= 1
            if depth < 0:
                raise Break("unbalanced }")
            i += 1
            continue
        if depth == 0 and c == "(":
            # identifier before?
            j = i - 1
            while j >= 0 and m[j].isspace():
                j -= 1
            k = j
            while k >= 0 and (m[k].isalnum() or m[k] == "_"):
                k -= 1
            name = m[k + 1:j + 1]
            rp = match_forward(m, i, "(", ")")
            nxt = skip_ws(m, rp + 1)
            if name and IDENT.fullmatch(name) and name not in KEYWORDS \
                    and nxt < n and m[nxt] == "{":
                rb = match_forward(m, nxt, "{", "}")
                res.append((name, i, rp, nxt, rb))
                i = rb + 1
                continue
            i = rp + 1
            continue
        i += 1
    if depth != 0:
        raise Break("unbalanced braces at end of file")
    return res


BASELINE = {}
LOOPS_SEEN = {}
LOOP_LINES = {}         # "file::fn" -> [[ordinal, first line, last line or None], ...]
STATIC_LOCALS = set()   # functions whose body declares an object with static storage duration


def load_baseline():
    path = os.environ.get("VERIF_LOOP_BASELINE") or os.path.join(os.path.dirname(os.path.dirname(os.path.abspath(__file__))), "contracts", "loop_baseline.json")
    if os.path.exists(path) and not os.environ.get("VERIF_NO_LOOP_BASELINE"):
        BASELINE.update(json.load(open(path)))


def loop_ordinals(base, cur):
    """1-based ordinals for the loops `cur` (condition texts, textual order) of one function."""
    if base is None:
        return list(range(1, len(cur) + 1))
    n, m = len(base), len(cur)
    L = [[0] * (m + 1) for _ in range(n + 1)]
    for i in range(n - 1, -1, -1):
        for j in range(m - 1, -1, -1):
            L[i][j] = L[i + 1][j + 1] + 1 if base[i] == cur[j] else max(L[i + 1][j], L[i][j + 1])
    pairs = []
    i = j = 0
    while i < n and j < m:
        if base[i] == cur[j]:
            pairs.append((i, j))
            i += 1
            j += 1
        elif L[i + 1][j] >= L[i][j + 1]:
            i += 1
        else:
            j += 1
    ordn = {}
    anchors = [(-1, -1)] + pairs + [(n, m)]
    for (a, b), (c, d) in zip(anchors, anchors[1:]):
        gb, gc = list(range(a + 1, c)), list(range(b + 1, d))
        if len(gb) == len(gc):      # same number of unmatched loops between two anchors: the loops were edited, not added
            for x, y in zip(gb, gc):
                ordn[y] = x + 1
    for (i, j) in pairs:
        ordn[j] = i + 1
    new = 0
    for j in range(m):
        if j not in ordn:
            new += 1
            ordn[j] = 100 + new
    return [ordn[j] for j in range(m)]


def instrument_text(text, fname):
    m = mask_source(text)
    funcs = find_functions(m)
    inserts = []  # (position, order, token)
    points = []
    for (name, lp, rp, lb, rb) in funcs:
        inserts.append((rp + 1, 0, " VC_%s " % name))
        points.append("VC_%s" % name)
        inserts.append((lb + 1, 0, " VERIF_GHOST(VE_%s) " % name))
        points.append("VE_%s" % name)
        body = m[lb:rb + 1]
        # paren depth per position inside the body
        pd = [0] * (len(body) + 1)
        d = 0
        for idx, ch in enumerate(body):
            if ch == "(":
                d += 1
            pd[idx] = d
            if ch == ")":
                d -= 1
        # loops: ordinals come from the committed baseline (contracts/loop_baseline.json) when the function is known
        # there: a loop whose condition text matches a baseline loop keeps that loop's ordinal even if a change
        # inserts or removes OTHER loops; loops with no counterpart get ordinals 101, 102, ... (no contract refers to them)
        found = []
        for mo in re.finditer(r"\b(for|while)\b", body):
            kw = mo.start()
            p = skip_ws(body, mo.end())
            if p >= len(body) or body[p] != "(":
                raise Break("%s: loop keyword without ( in %s" % (fname, name))
            q = match_forward(body, p, "(", ")")
            otext = text[lb + p + 1:lb + q]
            if mo.group(1) == "for":
                semis = [k for k in range(p + 1, q) if body[k] == ";" and pd[k] == pd[p]]
                if len(semis) == 2:
                    otext = text[lb + semis[0] + 1:lb + semis[1]]
            found.append((mo, "".join(otext.split())))
        slugs = [sl for (_mo, sl) in found]
        LOOPS_SEEN["%s::%s" % (os.path.basename(fname), name)] = slugs
        if re.search(r"\bstatic\b", body):
            STATIC_LOCALS.add(name)
        ordinals = loop_ordinals(BASELINE.get("%s::%s" % (os.path.basename(fname), name)), slugs)
        for (mo, _sl), nloop in zip(found, ordinals):
            kw = mo.start()
            p = skip_ws(body, mo.end())
            q = match_forward(body, p, "(", ")")
            b = skip_ws(body, q + 1)
            tag = "%s_%d" % (name, nloop)
            lrec = [nloop, text.count("\n", 0, lb + kw) + 1, None]     # [ordinal, first line, last line]
            LOOP_LINES.setdefault("%s::%s" % (os.path.basename(fname), name), []).append(lrec)
            if b >= len(body) or body[b] != "{":
                # unbraced loop body (not the repository's style, but a change may introduce one).  If the body is a plain
                # expression statement it is wrapped in braces (semantically neutral) so that all four points exist;
                # otherwise only the loop-contract point can be offered.
                d0 = pd[q] - 1
                simple = b < len(body) and not re.match(r"(if|for|while|do|switch|else|return|goto|break|continue)\b", body[b:]) and body[b] != ";"
                k = b
                while simple and k < len(body) and not (body[k] == ";" and pd[k] == d0):
                    if body[k] in "{}":
                        simple = False
                    k += 1
                if simple and k < len(body):
                    inserts.append((lb + kw, 1, "VERIF_GHOST(VP_%s) " % tag))
                    inserts.append((lb + q + 1, 0, " VL_%s " % tag))
                    inserts.append((lb + b, 0, "{ VERIF_GHOST(VT_%s) " % tag))
                    inserts.append((lb + k + 1, 0, " } VERIF_GHOST(VX_%s) " % tag))
                    points += ["VP_" + tag, "VL_" + tag, "VT_" + tag, "VX_" + tag]
                    lrec[2] = text.count("\n", 0, lb + k) + 1
                    continue
                inserts.append((lb + q + 1, 0, " VL_%s " % tag))
                points += ["VL_" + tag]
                continue
            e = match_forward(body, b, "{", "}")
            lrec[2] = text.count("\n", 0, lb + e) + 1
            inserts.append((lb + kw, 1, "VERIF_GHOST(VP_%s) " % tag))
            inserts.append((lb + q + 1, 0, " VL_%s " % tag))
            inserts.append((lb + b + 1, 0, " VERIF_GHOST(VT_%s) " % tag))
            inserts.append((lb + e + 1, 0, " VERIF_GHOST(VX_%s) " % tag))
            points += ["VP_" + tag, "VL_" + tag, "VT_" + tag, "VX_" + tag]
        # C08 observation points: branch conditions and non-constant subscripts
        for mo in re.finditer(r"\b(if|while|for)\b", body):
            p = skip_ws(body, mo.end())
            if p >= len(body) or body[p] != "(":
                continue
            q = match_forward(body, p, "(", ")")
            lo, hi = p + 1, q
            if mo.group(1) == "for":
                semis = [k for k in range(lo, hi) if body[k] == ";" and pd[k] == pd[p]]
                if len(semis) != 2:
                    raise Break("%s: for header without two ';' in %s" % (fname, name))
                lo, hi = semis[0] + 1, semis[1]
            # split on top-level && and ||
            cuts = [lo]
            k = lo
            while k < hi - 1:
                if pd[k] == pd[p] and body[k:k + 2] in ("&&", "||"):
                    cuts.append(k)
                    cuts.append(k + 2)
                    k += 2
                else:
                    k += 1
            cuts.append(hi)
            orig = text[lb:rb + 1]   # trim on the ORIGINAL text: literals and comments are blanked in the mask
            for a, b in zip(cuts[0::2], cuts[1::2]):
                while a < b and orig[a].isspace():
                    a += 1
                while b > a and orig[b - 1].isspace():
                    b -= 1
                if a < b:
                    inserts.append((lb + a, 3, "VLK_B("))
                    inserts.append((lb + b, -1, ")"))
        k = 0
        while k < len(body):
            if body[k] == "[":
                j = match_forward(body, k, "[", "]")
                prev = k - 1
                while prev >= 0 and body[prev].isspace():
                    prev -= 1
                content = body[k + 1:j]
                idents = [w for w in re.findall(r"[A-Za-z_][A-Za-z_0-9]*", content) if w != "sizeof"]
                if prev >= 0 and (body[prev].isalnum() or body[prev] in "_)]") and \
                        any(re.search(r"[a-z]", w) for w in idents) and content.strip():
                    inserts.append((lb + k + 1, 3, "VLK_I("))
                    inserts.append((lb + j, -1, ")"))
            k += 1
        # call statements
        counts = {}
        for mo in re.finditer(r"\b([A-Za-z_][A-Za-z_0-9]*)\s*\(", body):
            callee = mo.group(1)
            if callee in KEYWORDS:
                continue
            # skip declarations of the function itself
            if mo.start() == 0:
                continue
            # statement start: after the last ; { } at paren depth 0
            s = mo.start()
            k = s - 1
            while k >= 0:
                if body[k] in ";{}" and pd[k] == 0:
                    break
                k -= 1
            start = k + 1
            start = skip_ws(body, start)
            counts[callee] = counts.get(callee, 0) + 1
            tok = "VB_%s_%s_%d" % (name, callee, counts[callee])
            inserts.append((lb + start, 2, "VERIF_GHOST(" + tok + ") "))
            points.append(tok)
    # apply insertions back to front; for equal positions keep stable order
    inserts.sort(key=lambda t: (t[0], t[1]))
    out = []
    last = 0
    for pos, _o, tok in inserts:
        out.append(text[last:pos])
        out.append(tok)
        last = pos
    out.append(text[last:])
    return "".join(out), points


def main():
    if len(sys.argv) < 3:
        print("usage: instrument.py <outdir> <file>...", file=sys.stderr)
        return 2
    outdir = sys.argv[1]
    allpoints = {}
    load_baseline()
    try:
        for f in sys.argv[2:]:
            text = open(f, encoding="utf-8", errors="surrogateescape").read()
            new, points = instrument_text(text, f)
            dst = os.path.join(outdir, os.path.basename(f))
            with open(dst, "w", encoding="utf-8", errors="surrogateescape") as fh:
                fh.write(new)
            allpoints[os.path.basename(f)] = points
    except Break as e:
        print("EXTRACTION-BREAK: %s" % e, file=sys.stderr)
        return 3
    seen = set()
    with open(os.path.join(outdir, "verif_defaults.h"), "w") as fh:
        fh.write("/* generated: every instrumentation point defaults to empty */\n")
        fh.write("#ifndef VLK_B\n#define VLK_B(e) (e)\n#endif\n#ifndef VLK_I\n#define VLK_I(e) (e)\n#endif\n")
        # ghost statements run with CBMC's automatic safety checks switched off: an index expression of the GHOST code that no
        # longer fits a restructured loop must show up as a failed invariant (scaffolding), never as a memory-safety finding
        # against the repository's code.  (Explicit __CPROVER_assert in ghost statements and dfcc's frame checks are unaffected.)
        fh.write("#ifndef VERIF_GHOST\n#ifdef VERIF_CBMC\n#define VERIF_GHOST(x) _Pragma(\"CPROVER check push\") "
                 + " ".join("_Pragma(\"CPROVER check disable \\\"%s\\\"\")" % c for c in
                            ("bounds", "pointer", "pointer-overflow", "signed-overflow", "undefined-shift", "div-by-zero", "pointer-primitive"))
                 + " x _Pragma(\"CPROVER check pop\")\n#else\n#define VERIF_GHOST(x) x\n#endif\n#endif\n")
        for f, pts in sorted(allpoints.items()):
            for p in pts:
                if p in seen:
                    continue
                seen.add(p)
                fh.write("#ifndef %s\n#define %s\n#endif\n" % (p, p))
    with open(os.path.join(outdir, "verif_points.json"), "w") as fh:
        json.dump(allpoints, fh, indent=0)
    with open(os.path.join(outdir, "verif_loops.json"), "w") as fh:
        json.dump(dict(LOOPS_SEEN, __static_locals__=sorted(STATIC_LOCALS), __loop_lines__=LOOP_LINES), fh, indent=0, sort_keys=True)
    return 0


if __name__ == "__main__":
    sys.exit(main())
