"""Per-property texts, assumptions and claim status (source of MANIFEST.json)."""

LOCALITY = ("byte-range locality: a contract proved for separately allocated exact-size buffers (is_fresh) is applied "
            "to disjoint byte ranges inside larger objects (sub-ranges of bulk buffers, the tweak field next to the "
            "schedule); justified by the proved assigns frames, not machine-checked")
COMPOSE = ("composition of per-function contracts into the end-to-end statement (callee replaced by contract at each "
           "call site; ghost witness indices VG_J / VG_W are arbitrary, hence universally quantified)")

PROPS = {
    "C01": {
        "claimed": True,
        "technique": "CBMC function + loop contracts (dfcc), ghost lock-step with generated spec rounds",
        "text": "SKINNY-128 and SKINNY-64 set_key (TK1 closed form, TK2/TK3 ghost lock-step, round counts, call log) and "
                "ecb_encrypt/ecb_decrypt (loop contract: real state == ghost state advanced by the paper's round / explicit "
                "inverse round, round keys read from the schedule) proved for all keys, blocks, round counts <= MAX.",
        "assumptions": [COMPOSE,
                        "TK2/TK3: the ghost program (cells := key bytes ++ zeros; each round emit rows 0,1 then PT then LFSR) is the "
                        "specification's tweakey schedule; its value at the witness round is exported as VG_SNAP2/3"],
    },
    "C02": {
        "claimed": True,
        "technique": "CBMC function + loop contracts (dfcc), ghost lock-step with generated MANTIS steps",
        "text": "mantis_ecb_crypt and mantis_ecb_crypt_tweaked: both loops in lock-step with the paper's MANTIS-r steps for every "
                "rounds <= 8, key material, tweak and block; mantis_set_key / set_tweak: schedule fields as the paper defines "
                "(k0, k1, k0', alpha, zero tweak), rounds 5..8 and 16-byte keys only.",
        "assumptions": [COMPOSE,
                        "decryption is DEFINED by the paper as the same circuit under (k0', k0, k1^alpha); that this is the inverse "
                        "permutation is a property of MANTIS (alpha-reflection), cross-checked natively on the published vectors"],
    },
    "C04": {
        "claimed": True,
        "technique": "CBMC function contracts over an abstract view (key part, tweak) of the tweakable schedule",
        "text": "set_tweaked_key: zero tweak, rounds, schedule[J] = TK1_J(tweak) ^ domain bit ^ rc_J ^ TK2_J ^ TK3_J; set_tweak: "
                "key part schedule[J] ^ TK1_J(stored tweak) unchanged and stored tweak == new bytes ++ zeros (NULL: zeros) for every "
                "prior tweak and every length, so the post-state is a function of (key, latest tweak) only; CTR tweak API delegates.",
        "assumptions": [COMPOSE, LOCALITY, "history independence for arbitrary sequences follows by induction over calls (meta)"],
    },
    "C10": {
        "claimed": True,
        "technique": "CBMC function contracts, symbolic key length over the full unsigned range",
        "text": "return value == (pointers non-NULL && length in range) for every unsigned length, empty frame on rejection, and for "
                "accepted lengths the unpacked tweakey is REQUIRED to equal key bytes followed by zeros (loop invariants of set_tk2/3).",
        "assumptions": [COMPOSE],
    },
    "C13": {
        "claimed": True,
        "technique": "CBMC function contracts against an assumed CPUID/XGETBV model (nondeterministic sub-leaf for __cpuid)",
        "text": "_skinny_has_vec128/256 return exactly the model's 'instruction set present and enabled by the OS' predicate for every "
                "modelled CPU and every content of the unspecified ECX; the six init functions select the widest back end the probes "
                "offer and set parallel_size to match; the probes are replaced there by 'returns this constant', i.e. the selection is "
                "a function of the machine only.",
        "assumptions": [COMPOSE, "CPUID/XGETBV model transcribed from the Intel SDM (assumed contract of the hardware); inline asm is not "
                        "interpreted by CBMC; ARM/NEON branch not compiled on this host"],
    },
    "C15": {
        "claimed": True,
        "technique": "CBMC function contracts over the object state machine {inert, live}, heap model with frees/was_freed",
        "text": "per operation transition contracts for every CTR back end (generic + 4 SIMD), the public CTR wrappers and the three "
                "parallel-ECB objects: init -> live with exactly one allocator block; cleanup of live: wiped, freed exactly once, inert; "
                "cleanup of NULL/zeroed/cleaned objects: empty frame; every other call on an inert object returns 0 with empty frame.",
        "assumptions": [COMPOSE, "closure over all interleavings of operations is induction over the per-operation contracts (meta)",
                        "SIMD cleanup proved for the allocation layout 'aligned pointer == block base'"],
    },
    "C16": {
        "claimed": True,
        "technique": "CBMC function contracts with a failing allocator (--malloc-may-fail --malloc-fail-null)",
        "text": "every init function: on allocation failure returns 0, allocates nothing and leaves the handle inert (ctx == NULL) for "
                "ARBITRARY prior contents of the caller's object; inert objects are covered by C15's contracts.",
        "assumptions": [COMPOSE],
    },
    "C17": {
        "claimed": True,
        "technique": "CBMC function contracts; free() redirected to a checker that asserts the context is all-zero when released",
        "text": "every cleanup function: for an arbitrary witness byte of the context, that byte is zero at the moment free() is called "
                "(skinny_cleanse's own loop contract: every byte of [ptr, ptr+size) zero, nothing else written).",
        "assumptions": [COMPOSE, "the +31 alignment slack of SIMD contexts never holds state (calloc-zero, never written)",
                        "compiler may not elide the volatile stores (C semantics of volatile; not checked on machine code)"],
    },
}

for i in range(1, 21):
    PROPS.setdefault("C%02d" % i, {"claimed": False, "reason": "not claimed yet: check under construction (see DESIGN.md)"})
