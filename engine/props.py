"""Per-property texts, assumptions and claim status (source of MANIFEST.json)."""
import static_checks

LOCALITY = ("byte-range locality: a contract proved for separately allocated exact-size buffers (is_fresh) is applied "
            "to disjoint byte ranges inside larger objects (sub-ranges of bulk buffers, the tweak field next to the "
            "schedule); justified by the proved assigns frames, not machine-checked")
COMPOSE = ("composition of per-function contracts into the end-to-end statement (callee replaced by contract at each "
           "call site; ghost witness indices VG_J / VG_W are arbitrary, hence universally quantified)")

PROPS = {
    "C01": {
        "claimed": True,
        "technique": "CBMC function + loop contracts (dfcc), ghost lock-step with generated spec rounds",
        "text": "SKINNY-128 and SKINNY-64 set_key (TK1 closed form, TK2/TK3 ghost lock-step, round counts, call log) and "
                "ecb_encrypt/ecb_decrypt (loop contract: real state == ghost state advanced by the paper's round / explicit "
                "inverse round, round keys read from the schedule) proved for all keys, blocks, round counts <= MAX.",
        "assumptions": [COMPOSE,
                        "TK2/TK3: the ghost program (cells := key bytes ++ zeros; each round emit rows 0,1 then PT then LFSR) is the "
                        "specification's tweakey schedule; its value at the witness round is exported as VG_SNAP2/3"],
    },
    "C02": {
        "claimed": True,
        "technique": "CBMC function + loop contracts (dfcc), ghost lock-step with generated MANTIS steps",
        "text": "mantis_ecb_crypt and mantis_ecb_crypt_tweaked: both loops in lock-step with the paper's MANTIS-r steps for every "
                "rounds <= 8, key material, tweak and block; mantis_set_key / set_tweak: schedule fields as the paper defines "
                "(k0, k1, k0', alpha, zero tweak), rounds 5..8 and 16-byte keys only.",
        "assumptions": [COMPOSE,
                        "decryption is DEFINED by the paper as the same circuit under (k0', k0, k1^alpha); that this is the inverse "
                        "permutation is a property of MANTIS (alpha-reflection), cross-checked natively on the published vectors"],
    },
    "C04": {
        "claimed": True,
        "technique": "CBMC function contracts over an abstract view (key part, tweak) of the tweakable schedule",
        "text": "set_tweaked_key: zero tweak, rounds, schedule[J] = TK1_J(tweak) ^ domain bit ^ rc_J ^ TK2_J ^ TK3_J; set_tweak: "
                "key part schedule[J] ^ TK1_J(stored tweak) unchanged and stored tweak == new bytes ++ zeros (NULL: zeros) for every "
                "prior tweak and every length, so the post-state is a function of (key, latest tweak) only; CTR tweak API delegates.",
        "assumptions": [COMPOSE, LOCALITY, "history independence for arbitrary sequences follows by induction over calls (meta)"],
    },
    "C10": {
        "claimed": True,
        "technique": "CBMC function contracts, symbolic key length over the full unsigned range",
        "text": "return value == (pointers non-NULL && length in range) for every unsigned length, empty frame on rejection, and for "
                "accepted lengths the unpacked tweakey is REQUIRED to equal key bytes followed by zeros (loop invariants of set_tk2/3).",
        "assumptions": [COMPOSE],
    },
    "C03": {
        "claimed": True,
        "technique": "CBMC contracts (lock-step with the explicit inverse round) + loop-free inversion lemmas over the generated spec",
        "text": "SKINNY: decrypt is proved equal to the EXPLICIT inverse rounds applied in reverse order; the lemma inv_round(round(x,rk),rk) == x and "
                "its converse hold for all states and round keys; vector decrypt functions meet the same contract per witness lane; the dispatchers call "
                "only functions of the requested direction. MANTIS: forward/backward step cancellation, middle-layer and whitening involution lemmas; "
                "swap_modes swaps k0/k0' and xors alpha with tweak and rounds in its frame's complement.",
        "assumptions": [COMPOSE, "D o E = id follows from the per-round lemmas by induction on the round count (meta)",
                        "swap o swap = id and swap == re-keying in the other mode follow from the field-level contracts of swap_modes and set_key (xor with alpha is an involution)"],
    },
    "C05": {
        "claimed": True,
        "technique": "CBMC contracts in two layers: byte-level lemmas on fixed small objects + unbounded coverage loop contracts with ghost stream position",
        "text": "layer A: skinny_xor / block xor (witness byte), inc_counter and the SIMD lane increment (big-endian add incl. every carry and wrap, other "
                "lanes unchanged), E on the counter block (C01/C02; SIMD: witness lane), set_counter (left zero padding, every length 0..block, NULL), "
                "init (counter 0; SIMD lanes j). Layer B (size <= 2^40 symbolic, in-place or disjoint): every data byte is combined exactly once, in order, "
                "with the keystream byte whose absolute position matches; position advances exactly with the data, so splitting calls cannot matter.",
        "assumptions": [COMPOSE, "composition lemma A+B -> out[k] == in[k] ^ KS(c, k) (one paragraph, DESIGN 5/C05; trusted)",
                        "in the coverage layer the data writes of replaced callees are abstracted (extent asserted, content irrelevant)", LOCALITY],
    },
    "C06": {
        "claimed": True,
        "technique": "corollary: all back ends are proved against the SAME contracts; residual cross-back-end clause as separate obligation (known finding D5)",
        "text": "generic, 128-bit and 256-bit back ends meet identical abstract contracts (init, set_counter, encrypt coverage with lanes-consecutive "
                "invariant, error returns, wrappers pass arguments through unchanged); the one place where they differ - stream position after a key or "
                "tweak change in mid-stream - is encoded as an explicit obligation and reported as KNOWN-FINDING D5.",
        "assumptions": [COMPOSE, "parallel ECB: by C07 (every back end == block-by-block spec)"],
    },
    "C07": {
        "claimed": True,
        "technique": "CBMC contracts in two layers: vector block functions in lock-step per witness lane + dispatcher coverage loop contracts (real indirect calls)",
        "text": "layer A: every vector block function (vec128 in quick, vec256 in thorough): witness lane output == spec cipher of that lane's block "
                "(Mantis: under that lane's tweak). Layer B: dispatchers hand every block exactly once to a block function of the right direction at the "
                "right offset with the object's schedule for every size <= 2^40; non-multiples of the block -> 0, empty frame; parallel_size is a positive "
                "multiple of the block consistent with the selected back end.",
        "assumptions": [COMPOSE, "GCC's lane-wise semantics of vector >> (2.2a rewrite)", "data writes of replaced callees abstracted in layer B"],
    },
    "C09": {
        "claimed": True,
        "technique": "CBMC contracts with exact-extent is_fresh buffers, pointer/bounds checks, assigns frames; overlap wrapper contracts with symbolic offsets",
        "text": "every pointer argument is an object of exactly the advertised size, so one byte outside fails a pointer check and one byte written "
                "outside the output fails the frame; single-block functions proved for input = buf+a, output = buf+b with symbolic a,b (every overlap, "
                "every alignment); bulk functions for output == input and disjoint buffers; call extents inside [0,size) asserted at every callee call.",
        "assumptions": ["CBMC's byte-precise memory model has no alignment faults (the library assumes x86 unaligned access when SKINNY_UNALIGNED)", LOCALITY],
    },
    "C11": {
        "claimed": True,
        "technique": "consequence of the functional contracts: locals and heap are nondeterministic in CBMC",
        "text": "every functional postcondition (schedule == spec(key), output == spec, counter lanes, return values) is proved for ALL values of "
                "uninitialised locals and malloc'ed bytes, which excludes any dependence on them; undefined-behaviour checks are on in every job.",
        "assumptions": [COMPOSE, "struct padding bytes and cross-process/compiler differences are not modelled"],
    },
    "C12": {
        "claimed": True,
        "technique": "the same contracts re-proved under each compile-time path (guarded hook H1)",
        "text": "the scalar ciphers, tweakey schedules, Mantis and the block xor / counter helpers are proved against the same specification under all 8 "
                "combinations of SKINNY_64BIT x SKINNY_UNALIGNED x SKINNY_LITTLE_ENDIAN (3 non-default ones in quick, all in thorough).",
        "assumptions": ["GCC-vs-Clang code generation, optimisation levels and Clang's ext_vector_type spelling are NOT decided by this technique (C semantics only)",
                        "SIMD-off stubs: only the probes' contract (returns 0 when compiled out) - the stub vtables are never selected"],
    },
    "C14": {
        "claimed": True,
        "technique": "CBMC function contracts with conditional (empty) frames",
        "text": "for every int-returning public function and back-end operation: return value == (arguments valid && object live) over the full "
                "symbolic argument space, and on 0 the assigns clause is EMPTY (conditional assigns), so the object and all memory are untouched; "
                "NULL object, NULL vtable (zeroed / cleaned-up), NULL context (failed init) are ordinary cases of the same contracts.",
        "assumptions": [COMPOSE],
    },
    "C18": {
        "claimed": True,
        "technique": "frame contracts (assigns clauses) + mechanical scan for writable static objects",
        "text": "sufficient condition for data-race freedom, not an exploration of schedules: (i) every function's frame lies in objects reachable "
                "from its own non-const arguments; (ii) block functions and dispatchers have an empty frame on the shared schedule / object; (iii) no "
                "object file of the library contains a writable object of static storage duration (objdump section scan); the CPU probes have assigns().",
        "assumptions": ["C11 memory model: disjoint write footprints + read-only sharing => no data race (trusted)", "no interleaving is executed"],
        "static": [static_checks.c18_no_mutable_statics, static_checks.c18_readers_call_no_writers],
    },
    "C13": {
        "claimed": True,
        "technique": "CBMC function contracts against an assumed CPUID/XGETBV model (nondeterministic sub-leaf for __cpuid)",
        "text": "_skinny_has_vec128/256 return exactly the model's 'instruction set present and enabled by the OS' predicate for every "
                "modelled CPU and every content of the unspecified ECX; the six init functions select the widest back end the probes "
                "offer and set parallel_size to match; the probes are replaced there by 'returns this constant', i.e. the selection is "
                "a function of the machine only.",
        "assumptions": [COMPOSE, "CPUID/XGETBV model transcribed from the Intel SDM (assumed contract of the hardware); inline asm is not "
                        "interpreted by CBMC; ARM/NEON branch not compiled on this host"],
    },
    "C15": {
        "claimed": True,
        "technique": "CBMC function contracts over the object state machine {inert, live}, heap model with frees/was_freed",
        "text": "per operation transition contracts for every CTR back end (generic + 4 SIMD), the public CTR wrappers and the three "
                "parallel-ECB objects: init -> live with exactly one allocator block; cleanup of live: wiped, freed exactly once, inert; "
                "cleanup of NULL/zeroed/cleaned objects: empty frame; every other call on an inert object returns 0 with empty frame.",
        "assumptions": [COMPOSE, "closure over all interleavings of operations is induction over the per-operation contracts (meta)",
                        "SIMD cleanup proved for the allocation layouts 'aligned pointer == block base' and '== block base + 16' (the two a 16-byte aligned calloc produces); other offsets by analogy"],
    },
    "C16": {
        "claimed": True,
        "technique": "CBMC function contracts with a failing allocator (--malloc-may-fail --malloc-fail-null)",
        "text": "every init function: on allocation failure returns 0, allocates nothing and leaves the handle inert (ctx == NULL) for "
                "ARBITRARY prior contents of the caller's object; inert objects are covered by C15's contracts.",
        "assumptions": [COMPOSE],
    },
    "C17": {
        "claimed": True,
        "technique": "CBMC function contracts; free() redirected to a checker that asserts the context is all-zero when released",
        "text": "every cleanup function: for an arbitrary witness byte of the context, that byte is zero at the moment free() is called "
                "(skinny_cleanse's own loop contract: every byte of [ptr, ptr+size) zero, nothing else written).",
        "assumptions": [COMPOSE, "the +31 alignment slack of SIMD contexts never holds state (calloc-zero, never written); SIMD cleanup proved for context offsets 0 and 16 inside the allocated block",
                        "compiler may not elide the volatile stores (C semantics of volatile; not checked on machine code)"],
    },
}

PROPS["C08"] = {
    "claimed": True,
    "technique": "2-safety as a safety contract: two-run self-composition with leakage ghost state on the instrumented real code (CBMC, loops unwound to their public bounds)",
    "text": "every operand of every if/while/for condition and every non-constant subscript of the real sources passes through an observation "
            "point (engine/instrument.py: VLK_B / VLK_I, identity by default); the harness runs each function twice with equal public parameters "
            "(lengths, rounds, mode, offsets, NULL-ness) and independently chosen secrets (keys, schedules, tweaks, data, counters, buffered keystream, "
            "previous object contents) and proves equal observation at an arbitrary witness position and equal observation count. Complete over secrets; "
            "round counts symbolic up to MAX (Skinny vector block functions: loop contract, no unwinding); key/tweak lengths by representatives; CTR/parallel call sizes bounded.",
    "assumptions": ["observation points cover branch conditions and subscripts; unary-* dereferences and the byte offsets inside the READ_/WRITE_WORD macros are "
                    "not instrumented (their pointers/offsets are formed from parameters, loop indices and constants; audited by reading)",
                    "what the compilers emit (cmov vs branch, vector code) is NOT decided: source-level property only",
                    "SIMD CTR back ends: counter increment, set_counter and the encrypt loop are covered with the vector block function's body removed (ct.simd_*); of the vector "
                    "block functions Mantis is covered by unwinding its 8 rounds (ct.vec128_mantis, thorough) and the four Skinny vector block functions of the 128-bit back ends (Skinny-128 and Skinny-64, both "
                    "directions) by a LOOP CONTRACT on the round loop of the two-run composition (ct.vecloop_*: every round count, no unwinding; one observation per iteration, "
                    "run 1's witness record preserved); their `.r2` companions (rounds <= 2 unwound, bounded) only serve to turn a broken loop proof into a concrete two-run trace; the two 8-lane functions of the 256-bit back end are NOT covered by a C08 job "
                    "(CBMC's property instrumentation of that translation unit did not finish in 30 CPU-minutes): same straight-line lane arithmetic, audited by reading only",
                    "bounded: CTR/parallel call sizes <= 40/48/24 bytes, key and tweak lengths by representatives"],
}
PROPS["C19"] = {
    "claimed": True,
    "technique": "CBMC function + loop contracts (dfcc) on C translation units extracted mechanically on every run from the Arduino C++ sources (method bodies verbatim), against the library's specification contracts",
    "text": "for each of the 11 cipher classes: the constructor chain gives the library variant's round count; encryptBlock/decryptBlock in ghost lock-step with the same "
            "specification rounds as the C library (loop contracts, all rounds, all schedules, all blocks); setTK1/xorTK1/setTK2/setTK3 against the same closed form / ghost "
            "tweakey programs; leaf setKey: length check and schedule word J == the expression proved for skinny*_set_key_inner of the corresponding variant; setTweak: "
            "key part of the schedule unchanged for every previous tweak (history independence), null tweak = all-zero; Mantis8 setKey/setTweak/swapModes/encryptBlock "
            "against the MANTIS-8 steps and the library's field-level schedule; CTRCommon (CTR<T>): setKey delegates once and resets the keystream, setIV, "
            "encrypt/decrypt for EVERY length (loop contracts: witness data byte W is xored with byte (p0+W) of buffered-block ++ E(c) ++ E(c+1).., big-endian "
            "counter arithmetic in 128-bit ghost arithmetic, continuity of posn/counter/buffered block across calls), clear() erases.",
    "assumptions": [COMPOSE,
                    "extraction (engine/arduino_extract.py, re-run on every check): g++ -E of the .cpp (host macros: the USE_AVR_INLINE_ASM branches are preprocessed away, comments dropped); "
                    "the data members of the leaf class and its bases become file-scope objects initialised as the constructor chain initialises them (single object, no `this`; a constructor body may only "
                    "zero-fill array members - memset(m, 0, sizeof(m)), the value static storage has anyway - anything else is an extraction break); "
                    "virtual calls are resolved statically to the most derived definition; default arguments are written out; calls through CTRCommon::blockCipher become the "
                    "external functions BlockCipher__*() with role contracts; the one-argument clean(T&) template is expanded to clean(&x, sizeof x) with the body of clean() "
                    "taken verbatim from Crypto.cpp; method and helper bodies are the preprocessed text, unchanged",
                    "the AVR inline-assembly path is not verified (out of reach on the host, as the property says)",
                    "C++ and C agree on the semantics of the extracted bodies (integer promotions, unsigned arithmetic, unions with literal indices; no templates, exceptions or overloads remain in them)",
                    "little-endian host (the portable branch memcpy()s bytes into 32-bit words exactly as the library's little-endian path does)",
                    "object-bounds check on pointer ARITHMETIC is off for these jobs (dereferences stay checked): the flattening gives every member its own object, "
                    "and Skinny128/64::decryptBlock leave their loop with the schedule cursor one round before sched[], inside the real object",
                    "CTR<T>: T is abstracted by role contracts on the BlockCipher interface (encryptBlock: result of the witness call named by a ghost); that T's methods meet them is "
                    "the per-class part; the C library reference for call sequences is its generic back end (its SIMD back ends: open finding D5 under C06)",
                    "Mantis8::setKey: the 8-iteration rotate loop and the 8-byte clean() are unwound (program constants, unwinding assertions on)"],
}
PROPS["C20"] = {
    "claimed": True,
    "technique": "CBMC contracts on the tools' real main()/parse_options against a ghost file model (assumed stdio/getopt contracts) and library role contracts",
    "text": "for EVERY input length (symbolic, unbounded, loop contracts): skinny-ctr writes exactly the bytes it read, chunk by chunk at the file position "
            "they came from, each after the library's CTR call on exactly that chunk; skinny-ecb / skinny-tweak write the whole blocks of every chunk (trailing "
            "partial block dropped), transformed in the direction of -d (tweak tool: every block under a freshly set, incremented tweak); files closed, objects "
            "cleaned up; invalid options exit 1 before the output file is opened.  parse_options returns 1 only with lengths inside the LIBRARY's accepted "
            "ranges, so every library call in main meets its precondition, and (ghost option record, witness byte) with key / counter / tweak left EXACTLY as the last "
            "-k and -c/-t arguments parsed: same length, same bytes, no padding, truncation or re-alignment; no -c/-t: block_size zero bytes; parse_hex never "
            "writes beyond max_len; increment_tweak is a big-endian +1.",
    "assumptions": ["ghost file model = assumed contract of fopen/fread/feof/fwrite/fclose for regular files (short read only at end of file); getopt model = any option "
                    "sequence with arguments of at most 8 characters; strcmp result abstracted",
                    "'output == the library's transformation of the input' is by composition with C05 (CTR split independence), C01/C04 (block functions) - the tool "
                    "jobs track WHICH bytes are transformed and written, not their values",
                    "parse_hex: argument strings bounded to 8 characters (unwinding); termination of the tools not claimed",
                    "round trip (run twice / -d restores) follows from C05's involution and C03; checked natively by the replayer on real files (family tools)"],
}
for i in range(1, 21):
    PROPS.setdefault("C%02d" % i, {"claimed": False, "reason": "not claimed yet: check under construction (see DESIGN.md)"})
