"""Per-property texts and extra assumptions for the evidence files."""
PROPS = {}
