#!/bin/bash
# seed_scratch.sh <seed-dir> <property>...: like seedtest.sh, but on a scratch worktree of /repo HEAD (VERIF_REPO) with the
# evidence written to a scratch directory: /repo and /verif/evidence stay untouched.
SEED="$(cd "$1" && pwd)"; shift
WT="$(mktemp -d /tmp/ss.XXXXXX)"; rmdir "$WT"
git -C /repo worktree add -q --detach "$WT" HEAD || exit 2
trap 'git -C /repo worktree remove --force "$WT" 2>/dev/null; rm -rf "$WT" "$WT.ev"' EXIT
git -C "$WT" apply "$SEED/patch.diff" || { echo "patch does not apply"; exit 2; }
for p in "$@"; do
  out=$(cd /verif && VERIF_REPO="$WT" VERIF_EVIDENCE_DIR="$WT.ev" python3 checks/check.py $p $SEEDTEST_ARGS 2>&1); rc=$?
  v=$(echo "$out" | grep -c "^VIOLATION")
  nat=$(echo "$out" | grep "^VIOLATION" | grep -vc "no-failing-input-found")
  case $rc in
    1) echo "SEEDTEST $(basename $SEED) $p: DETECTED ($v violation lines, $nat with a native failing input): $(echo "$out" | grep "^VIOLATION" | head -3 | sed 's/.*replay=.*replay\///' | tr '\n' ' ')";;
    0) echo "SEEDTEST $(basename $SEED) $p: MISSED";;
    *) echo "SEEDTEST $(basename $SEED) $p: UNDECIDED rc=$rc: $(echo "$out" | grep UNDECIDED | head -2 | cut -c1-200)";;
  esac
done
