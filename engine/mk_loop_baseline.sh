#!/bin/bash
# mk_loop_baseline.sh: (re)generate contracts/loop_baseline.json from /repo's CURRENT tree: for every function, the
# condition text of each loop in textual order.  The loop contracts in contracts/*.h are numbered against this table;
# run it only when the contracts are revised against a new version of the sources, and commit the result.
HERE="$(cd "$(dirname "$0")/.." && pwd)"
W="$(mktemp -d /tmp/verif_lb.XXXXXX)"; trap 'rm -rf "$W"' EXIT
VERIF_NO_LOOP_BASELINE=1 "$HERE/engine/mktree.sh" "${VERIF_REPO:-/repo}" "$W/t" || exit 1
python3 - "$W/t" "$HERE/contracts/loop_baseline.json" <<'PY'
import json, sys, os
t, out = sys.argv[1:3]
d = {}
for sub in ("src", "examples", "arduino"):
    d.update(json.load(open(os.path.join(t, sub, "verif_loops.json"))))
d = {k: v for k, v in d.items() if v and not k.startswith("__")}
json.dump(d, open(out, "w"), indent=0, sort_keys=True)
print("loop baseline: %d functions with loops" % len(d))
PY
