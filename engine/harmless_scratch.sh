#!/bin/bash
# harmless_scratch.sh <patch.diff> <property>...: like harmlesstest.sh, but on a scratch worktree of /repo HEAD (VERIF_REPO) with the
# evidence written to a scratch directory, so that /repo and /verif/evidence stay untouched (maintenance runs can overlap).
P="$(cd "$(dirname "$1")" && pwd)/$(basename "$1")"; shift
WT="$(mktemp -d /tmp/hs.XXXXXX)"; rmdir "$WT"
git -C /repo worktree add -q --detach "$WT" HEAD || exit 2
trap 'git -C /repo worktree remove --force "$WT" 2>/dev/null; rm -rf "$WT" "$WT.ev"' EXIT
git -C "$WT" apply "$P" || { echo "patch does not apply"; exit 2; }
for p in "$@"; do
  out=$(cd /verif && VERIF_REPO="$WT" VERIF_EVIDENCE_DIR="$WT.ev" python3 checks/check.py $p $HARMLESS_ARGS 2>&1); rc=$?
  tag="$(basename $(dirname $P))/$(basename $P)"
  case $rc in
    0) echo "HARMLESS $tag $p: QUIET";;
    1) echo "HARMLESS $tag $p: FALSE-ALARM: $(echo "$out" | grep "^VIOLATION" | head -3 | sed 's/.*replay=.*replay\///' | tr '\n' ' ')"; mkdir -p /tmp/hs_keep; cp "$WT.ev"/replay/*.txt /tmp/hs_keep/ 2>/dev/null;;
    *) echo "HARMLESS $tag $p: UNDECIDED rc=$rc: $(echo "$out" | grep UNDECIDED | head -3 | cut -c1-260 | tr '\n' ' ')";;
  esac
done
