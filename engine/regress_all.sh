#!/bin/bash
# regress_all.sh [seeds|harmless|all]: maintenance run (not a registered check): every seeded change must be DETECTED by the
# quick check of its property, every behaviour-preserving change must stay QUIET (UNDECIDED is tolerated and listed).
# Applies each patch to /repo in turn and restores the tree; several hours.
cd /verif
WHAT="${1:-all}"
if [ "$WHAT" = seeds ] || [ "$WHAT" = all ]; then
  for d in seeded/C*/; do
    p=$(python3 -c "import json,sys;print(json.load(open('$d/meta.json'))['property'])")
    bash engine/seedtest.sh "$d" "$p"
  done
fi
if [ "$WHAT" = harmless ] || [ "$WHAT" = all ]; then
  grep -v '^#' seeded/harmless/INDEX.txt | while read f props; do
    [ -n "$f" ] && bash engine/harmlesstest.sh "seeded/harmless/$f" $props
  done
fi
