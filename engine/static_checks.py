"""Supporting static facts (decided mechanically, outside CBMC)."""
import os
import re
import subprocess
import tempfile
import shutil

REPO = os.environ.get("VERIF_REPO", "/repo")


def c18_no_mutable_statics():
    """C18 (iii): the shipped library contains no object of static storage duration that can be
    written: every src/*.c is compiled as the Makefile compiles it (guard off) and `objdump -t` must show
    every data object in .rodata* or .data.rel.ro* (const tables of function pointers), none in .data/.bss/COMMON."""
    tmp = tempfile.mkdtemp(prefix="verif_c18_")
    bad = []
    samples = []
    n = 0
    try:
        for f in sorted(os.listdir(os.path.join(REPO, "src"))):
            if not f.endswith(".c"):
                continue
            fl = []
            if f.endswith("vec128.c"):
                fl = ["-msse2"]
            elif f.endswith("vec256.c"):
                fl = ["-mavx2"]
            elif f == "skinny-internal.c":
                fl = ["-msse2", "-mavx2"]
            o = os.path.join(tmp, f[:-2] + ".o")
            p = subprocess.run(["gcc", "-std=c99", "-O3", "-I" + os.path.join(REPO, "include")] + fl +
                               ["-c", os.path.join(REPO, "src", f), "-o", o], stdout=subprocess.PIPE, stderr=subprocess.STDOUT)
            if p.returncode != 0:
                return {"error": "gcc failed on %s: %s" % (f, p.stdout.decode()[-500:])}
            n += 1
            out = subprocess.run(["objdump", "-t", "-w", o], stdout=subprocess.PIPE).stdout.decode()
            mut, ro = [], 0
            for l in out.splitlines():
                m = re.match(r"^[0-9a-f]+\s+\S*\s+O\s+(\S+)\s+[0-9a-f]+\s+(\S+)$", l) or \
                    re.match(r"^[0-9a-f]+\s+\S+\s+O\s+(\S+)\s+[0-9a-f]+\s+(\S+)$", l)
                if not m:
                    continue
                sec, name = m.group(1), m.group(2)
                # .rodata* and .data.rel.ro* (const tables holding function pointers; read-only after relocation)
                if sec.startswith(".rodata") or sec.startswith(".data.rel.ro"):
                    ro += 1
                else:
                    mut.append("%s in section %s" % (name, sec))
            samples.append("%s: %d writable static objects, %d read-only tables" % (f, len(mut), ro))
            for l in mut:
                bad.append("%s: %s" % (f, l.strip()))
    finally:
        shutil.rmtree(tmp, ignore_errors=True)
    return {"obligations": n, "discharged": n - len(set(b.split(":")[0] for b in bad)), "samples": samples[:6],
            "violations": bad,
            "job": {"job": "static.c18.sections", "functions_under_contract": [], "obligations": n,
                    "discharged": n - len(set(b.split(":")[0] for b in bad)), "status": "fail" if bad else "ok",
                    "backend": "gcc -c + objdump -t (object symbols by section)", "note": "no writable object of static storage duration in any library object file"}}
