"""Supporting static facts (decided mechanically, outside CBMC)."""
import os
import re
import subprocess
import tempfile
import shutil

REPO = os.environ.get("VERIF_REPO", "/repo")


def c18_no_mutable_statics():
    """C18 (iii): the shipped library contains no object of static storage duration that can be
    written: every src/*.c is compiled as the Makefile compiles it (guard off) and `objdump -t` must show
    every data object in .rodata* or .data.rel.ro* (const tables of function pointers), none in .data/.bss/COMMON."""
    tmp = tempfile.mkdtemp(prefix="verif_c18_")
    bad = []
    samples = []
    n = 0
    try:
        for f in sorted(os.listdir(os.path.join(REPO, "src"))):
            if not f.endswith(".c"):
                continue
            fl = []
            if f.endswith("vec128.c"):
                fl = ["-msse2"]
            elif f.endswith("vec256.c"):
                fl = ["-mavx2"]
            elif f == "skinny-internal.c":
                fl = ["-msse2", "-mavx2"]
            o = os.path.join(tmp, f[:-2] + ".o")
            p = subprocess.run(["gcc", "-std=c99", "-O3", "-I" + os.path.join(REPO, "include")] + fl +
                               ["-c", os.path.join(REPO, "src", f), "-o", o], stdout=subprocess.PIPE, stderr=subprocess.STDOUT)
            if p.returncode != 0:
                return {"error": "gcc failed on %s: %s" % (f, p.stdout.decode()[-500:])}
            n += 1
            out = subprocess.run(["objdump", "-t", "-w", o], stdout=subprocess.PIPE).stdout.decode()
            mut, ro = [], 0
            for l in out.splitlines():
                m = re.match(r"^[0-9a-f]+\s+\S*\s+O\s+(\S+)\s+[0-9a-f]+\s+(\S+)$", l) or \
                    re.match(r"^[0-9a-f]+\s+\S+\s+O\s+(\S+)\s+[0-9a-f]+\s+(\S+)$", l)
                if not m:
                    continue
                sec, name = m.group(1), m.group(2)
                # .rodata* and .data.rel.ro* (const tables holding function pointers; read-only after relocation)
                if sec.startswith(".rodata") or sec.startswith(".data.rel.ro"):
                    ro += 1
                else:
                    mut.append("%s in section %s" % (name, sec))
            samples.append("%s: %d writable static objects, %d read-only tables" % (f, len(mut), ro))
            for l in mut:
                bad.append("%s: %s" % (f, l.strip()))
    finally:
        shutil.rmtree(tmp, ignore_errors=True)
    return {"obligations": n, "discharged": n - len(set(b.split(":")[0] for b in bad)), "samples": samples[:6],
            "violations": bad,
            "job": {"job": "static.c18.sections", "functions_under_contract": [], "obligations": n,
                    "discharged": n - len(set(b.split(":")[0] for b in bad)), "status": "fail" if bad else "ok",
                    "backend": "gcc -c + objdump -t (object symbols by section)", "note": "no writable object of static storage duration in any library object file"}}


READERS = re.compile(r"^(skinny(128|64)_ecb_(encrypt|decrypt)|mantis_ecb_crypt(_tweaked)?|"
                     r"(skinny(128|64)|mantis)_parallel_ecb_(encrypt|decrypt|crypt)|_(skinny(128|64)|mantis)_parallel_(encrypt|decrypt|crypt)_vec(128|256)|"
                     r"_skinny_has_vec(128|256))$")
WRITERS = re.compile(r"^((skinny(128|64)|mantis)_(set_key|set_key_inner|set_tweaked_key|set_tweak|set_tk[123]|xor_tk1|swap_modes)|"
                     r"(skinny(128|64)|mantis)_parallel_ecb_(set_key|swap_modes|init|cleanup)|skinny_cleanse|skinny_calloc|calloc|malloc|free|memset|memcpy|memmove)$")


def c18_readers_call_no_writers():
    """C18 (ii, static part): the functions that callers may run concurrently on a shared schedule / object (block functions, parallel
    ECB data functions with their vector back ends, CPU probes) do not call - directly or through other library functions, with the
    vtable calls resolved by goto-instrument's function pointer removal - any function whose contract writes a schedule or object.
    Decided on the call graph of each translation unit (goto-cc + goto-instrument --call-graph); a fact about code structure that
    does not depend on loop invariants."""
    tmp = tempfile.mkdtemp(prefix="verif_c18cg_")
    bad, samples = [], []
    n = 0
    try:
        edges = {}
        for f in sorted(os.listdir(os.path.join(REPO, "src"))):
            if not f.endswith(".c") or "-ctr" in f:
                continue
            fl = []
            if f.endswith("vec128.c"):
                fl = ["-msse2"]
            elif f.endswith("vec256.c"):
                fl = ["-mavx2"]
            elif f == "skinny-internal.c":
                fl = ["-msse2", "-mavx2"]
            gb = os.path.join(tmp, f[:-2] + ".gb")
            p = subprocess.run(["goto-cc", "-c", "-std=c99", "-I" + os.path.join(REPO, "include"), "-I" + os.path.join(REPO, "src")] + fl +
                               [os.path.join(REPO, "src", f), "-o", gb], stdout=subprocess.PIPE, stderr=subprocess.STDOUT)
            if p.returncode != 0:
                return {"error": "goto-cc failed on %s: %s" % (f, p.stdout.decode()[-300:])}
            out = subprocess.run(["goto-instrument", "--call-graph", gb], stdout=subprocess.PIPE, stderr=subprocess.STDOUT).stdout.decode()
            for l in out.splitlines():
                m = re.match(r"^(\S+) -> (\S+)$", l.strip())
                if m:
                    edges.setdefault(m.group(1), set()).add(m.group(2))
        readers = sorted(k for k in edges if READERS.match(k)) + sorted(set(c for v in edges.values() for c in v if READERS.match(c)) - set(edges))
        for r in sorted(set(readers)):
            n += 1
            seen, todo, path = set(), [(r, [r])], None
            while todo:
                fn, pth = todo.pop()
                if fn in seen:
                    continue
                seen.add(fn)
                for c in sorted(edges.get(fn, ())):
                    if WRITERS.match(c):
                        path = pth + [c]
                        break
                    todo.append((c, pth + [c]))
                if path:
                    break
            if path:
                bad.append("%s reaches a function that writes shared state: %s" % (r, " -> ".join(path)))
            elif len(samples) < 6:
                samples.append("%s: calls only %s" % (r, ", ".join(sorted(seen - {r})) or "nothing"))
    finally:
        shutil.rmtree(tmp, ignore_errors=True)
    return {"obligations": n, "discharged": n - len(bad), "samples": samples, "violations": bad,
            "job": {"job": "static.c18.callgraph", "functions_under_contract": [], "obligations": n, "discharged": n - len(bad),
                    "status": "fail" if bad else "ok", "backend": "goto-cc + goto-instrument --call-graph (function pointers removed)",
                    "note": "read-only entry points reach no function whose contract writes a schedule / object"}}
