#!/bin/bash
# mktree.sh <repo> <out>: scratch copy of the repository with instrumentation
# points inserted (engine/instrument.py), the generated spec and the contracts.
# Exit 3 = extraction break.
set -e
REPO="$1"; OUT="$2"
HERE="$(cd "$(dirname "$0")/.." && pwd)"
mkdir -p "$OUT/src" "$OUT/include" "$OUT/examples"
cp "$REPO"/include/*.h "$OUT/include/"
# 2.2(a): type-aware rewrite of vector `>>` in the SIMD files (before the instrumentation points go in)
mkdir -p "$OUT/pre"
cp "$REPO"/src/*.c "$REPO"/src/*.h "$OUT/pre/"
for f in "$REPO"/src/*-vec128.c "$REPO"/src/*-vec256.c; do
  fl="-msse2"; case "$f" in *vec256.c) fl="-mavx2";; esac
  python3 "$HERE/engine/vshr.py" "$f" "$OUT/pre/$(basename "$f")" "$REPO/include" $fl ${VERIF_CONFIG_DEFS} 2>>"$OUT/vshr.log" || exit 3
done
python3 "$HERE/engine/instrument.py" "$OUT/src" "$OUT"/pre/*.c "$OUT"/pre/*.h || exit 3
mv "$OUT/src/verif_defaults.h" "$OUT/verif_defaults_src.h"
mv "$OUT/src/verif_points.json" "$OUT/verif_points_src.json"
python3 "$HERE/engine/instrument.py" "$OUT/examples" "$REPO"/examples/*.c "$REPO"/examples/*.h || exit 3
mv "$OUT/examples/verif_defaults.h" "$OUT/verif_defaults_examples.h"
mv "$OUT/examples/verif_points.json" "$OUT/verif_points_examples.json"
cat "$HERE/contracts/verif_vshr.h" "$OUT/verif_defaults_src.h" "$OUT/verif_defaults_examples.h" > "$OUT/verif_defaults.h"
python3 "$HERE/spec/gen_spec.py" "$OUT/spec_gen.h"
cp "$HERE"/spec/spec_ref.[ch] "$OUT/"
mkdir -p "$OUT/contracts" "$OUT/harness"
cp "$HERE"/contracts/*.h "$OUT/contracts/" 2>/dev/null || true
cp "$HERE"/harness/*.[ch] "$OUT/harness/" 2>/dev/null || true
