#!/bin/bash
# mktree.sh <repo> <out>: scratch copy of the repository with instrumentation
# points inserted (engine/instrument.py), the generated spec and the contracts.
# Exit 3 = extraction break.
set -e
REPO="$1"; OUT="$2"
HERE="$(cd "$(dirname "$0")/.." && pwd)"
mkdir -p "$OUT/src" "$OUT/include" "$OUT/examples"
cp "$REPO"/include/*.h "$OUT/include/"
# 2.2(a): type-aware rewrite of vector `>>` in the SIMD files (before the instrumentation points go in)
mkdir -p "$OUT/pre"
cp "$REPO"/src/*.c "$REPO"/src/*.h "$OUT/pre/"
for f in "$REPO"/src/*-vec128.c "$REPO"/src/*-vec256.c; do
  fl="-msse2"; case "$f" in *vec256.c) fl="-mavx2";; esac
  python3 "$HERE/engine/vshr.py" "$f" "$OUT/pre/$(basename "$f")" "$REPO/include" $fl ${VERIF_CONFIG_DEFS} 2>>"$OUT/vshr.log" || exit 3
done
python3 "$HERE/engine/instrument.py" "$OUT/src" "$OUT"/pre/*.c "$OUT"/pre/*.h || exit 3
mv "$OUT/src/verif_defaults.h" "$OUT/verif_defaults_src.h"
mv "$OUT/src/verif_points.json" "$OUT/verif_points_src.json"
python3 "$HERE/engine/instrument.py" "$OUT/examples" "$REPO"/examples/*.c "$REPO"/examples/*.h || exit 3
mv "$OUT/examples/verif_defaults.h" "$OUT/verif_defaults_examples.h"
mv "$OUT/examples/verif_points.json" "$OUT/verif_points_examples.json"
# C19: the Arduino port.  Every leaf class is extracted to a C translation unit on this run
# (engine/arduino_extract.py: method bodies verbatim from the preprocessed portable branch), then instrumented
# like the library.  A failure here never stops the other properties: the C19 jobs then find no TU (UNDECIDED).
mkdir -p "$OUT/ardpre" "$OUT/arduino"
AR="$REPO/arduino/libraries/Skinny"
ard() { python3 "$HERE/engine/arduino_extract.py" "$AR/$1" "$AR" "$2" "$OUT/ardpre/$2.c" $3 2>>"$OUT/arduino/extract.log" || echo "$2" >> "$OUT/arduino/EXTRACTION_BREAK"; }
for k in 128 256 384; do ard Skinny128.cpp Skinny128_$k "Skinny128 Skinny128_$k"; done
for k in 256 384; do ard Skinny128.cpp Skinny128_${k}_Tweaked "Skinny128 Skinny128_Tweaked Skinny128_${k}_Tweaked"; done
for k in 64 128 192; do ard Skinny64.cpp Skinny64_$k "Skinny64 Skinny64_$k"; done
for k in 128 192; do ard Skinny64.cpp Skinny64_${k}_Tweaked "Skinny64 Skinny64_Tweaked Skinny64_${k}_Tweaked"; done
ard Mantis8.cpp Mantis8 "Mantis8"
ard CTR.cpp CTRCommon "CTRCommon"
if python3 "$HERE/engine/instrument.py" "$OUT/arduino" "$OUT"/ardpre/*.c 2>>"$OUT/arduino/extract.log"; then
  mv "$OUT/arduino/verif_defaults.h" "$OUT/verif_defaults_arduino.h"
else
  echo "instrument" >> "$OUT/arduino/EXTRACTION_BREAK"; : > "$OUT/verif_defaults_arduino.h"
fi
cat "$HERE/contracts/verif_vshr.h" "$OUT/verif_defaults_src.h" "$OUT/verif_defaults_examples.h" "$OUT/verif_defaults_arduino.h" > "$OUT/verif_defaults.h"
python3 "$HERE/spec/gen_spec.py" "$OUT/spec_gen.h"
cp "$HERE"/spec/spec_ref.[ch] "$OUT/"
mkdir -p "$OUT/contracts" "$OUT/harness"
cp "$HERE"/contracts/*.h "$OUT/contracts/" 2>/dev/null || true
cp "$HERE"/harness/*.[ch] "$OUT/harness/" 2>/dev/null || true
