#!/bin/bash
# mktree.sh <repo> <out>: scratch copy of the repository with instrumentation
# points inserted (engine/instrument.py), the generated spec and the contracts.
# Exit 3 = extraction break.
set -e
REPO="$1"; OUT="$2"
HERE="$(cd "$(dirname "$0")/.." && pwd)"
mkdir -p "$OUT/src" "$OUT/include" "$OUT/examples"
cp "$REPO"/include/*.h "$OUT/include/"
python3 "$HERE/engine/instrument.py" "$OUT/src" "$REPO"/src/*.c "$REPO"/src/*.h || exit 3
mv "$OUT/src/verif_defaults.h" "$OUT/verif_defaults_src.h"
mv "$OUT/src/verif_points.json" "$OUT/verif_points_src.json"
python3 "$HERE/engine/instrument.py" "$OUT/examples" "$REPO"/examples/*.c "$REPO"/examples/*.h || exit 3
mv "$OUT/examples/verif_defaults.h" "$OUT/verif_defaults_examples.h"
mv "$OUT/examples/verif_points.json" "$OUT/verif_points_examples.json"
cat "$OUT/verif_defaults_src.h" "$OUT/verif_defaults_examples.h" > "$OUT/verif_defaults.h"
python3 "$HERE/spec/gen_spec.py" "$OUT/spec_gen.h"
cp "$HERE"/spec/spec_ref.[ch] "$OUT/"
mkdir -p "$OUT/contracts" "$OUT/harness"
cp "$HERE"/contracts/*.h "$OUT/contracts/" 2>/dev/null || true
cp "$HERE"/harness/*.[ch] "$OUT/harness/" 2>/dev/null || true
