#!/bin/bash
# seedtest.sh <seed-dir> <property>...: apply a seeded change to /repo, run the quick checks of the given
# properties, undo the change.  Prints one line per check: DETECTED (exit 1 + VIOLATION), MISSED (exit 0),
# UNDECIDED (exit 2).
SEED="$(cd "$1" && pwd)"; shift
git -C /repo diff --quiet || { echo "repo working tree not clean"; exit 2; }
git -C /repo apply "$SEED/patch.diff" || { echo "patch does not apply"; exit 2; }
trap 'git -C /repo checkout -- . >/dev/null 2>&1' EXIT
for p in "$@"; do
  out=$(cd /verif && ${SEEDTEST_TIMEOUT:+timeout $SEEDTEST_TIMEOUT} python3 checks/check.py $p $SEEDTEST_ARGS 2>&1); rc=$?
  v=$(echo "$out" | grep -c "^VIOLATION")
  case $rc in
    1) echo "SEEDTEST $(basename $SEED) $p: DETECTED ($v violation lines): $(echo "$out" | grep "^VIOLATION" | head -3 | sed 's/.*replay=.*replay\///' | tr '\n' ' ')";;
    0) echo "SEEDTEST $(basename $SEED) $p: MISSED";;
    *) echo "SEEDTEST $(basename $SEED) $p: UNDECIDED rc=$rc: $(echo "$out" | grep UNDECIDED | head -2 | cut -c1-200)";;
  esac
done
