#!/bin/bash
# runs every claimed check's quick (or $1) command sequentially; prints id, exit code and wall time
cd /verif
TIER="${1:-quick}"
for id in $(python3 -c "import json;print(' '.join(c['property_id'] for c in json.load(open('MANIFEST.json'))['checks']))"); do
  s=$(date +%s)
  out=$(python3 checks/check.py $id --tier $TIER 2>&1); rc=$?
  echo "$id rc=$rc $(( $(date +%s) - s ))s :: $(echo "$out" | tail -n 2 | tr '\n' ' ' | cut -c1-260)"
done
