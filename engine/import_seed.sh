#!/bin/bash
# import_seed.sh <worktree> <seed-name> <property> "<needs to manifest>": copy a sub-agent's seeded change into
# /verif/seeded/<name>, confirm it independently (confirm_seed.sh), then remove the worktree.
WT="$1"; NAME="$2"; PROP="$3"; NEED="$4"
D=/verif/seeded/$NAME
mkdir -p "$D"
cp "$WT"/demo/demo.c "$WT"/demo/build.sh "$WT"/demo/patch.diff "$WT"/demo/NOTES.md "$D/" 2>/dev/null
# extra demo files (headers, helper sources)
for d in "$WT"/demo/*/; do [ -d "$d" ] && cp -r "$d" "$D/"; done
for f in "$WT"/demo/*; do b=$(basename "$f"); case "$b" in demo|demo.c|build.sh|patch.diff|NOTES.md|*.o) ;; *) [ -f "$f" ] && cp "$f" "$D/" && echo "$b" >> "$D/extra_files.txt";; esac; done
python3 - "$D" "$PROP" "$NEED" "$NAME" <<'PY'
import json,sys
d,prop,need,name=sys.argv[1:5]
json.dump({"property":prop,"needs_to_manifest":need,"origin":"independent sub-agent given only the property text and a scratch worktree of /repo",
 "confirmed_by":"engine/confirm_seed.sh seeded/%s (fresh worktree of /repo HEAD: demo exit 0 on original; with patch: make check 30/30 ok, demo exit != 0)"%name,
 "detected_by":"see DESIGN.md section 14"},open(d+"/meta.json","w"),indent=1)
PY
git -C /repo worktree remove --force "$WT" 2>/dev/null
/verif/engine/confirm_seed.sh "$D" 2>&1 | tail -1
