#!/usr/bin/env python3
"""Job engine: builds the instrumented scratch tree from /repo's CURRENT working
tree, runs CBMC contract jobs 16-wide, classifies every obligation, replays
failures natively, writes evidence/<id>.json and prints VIOLATION /
KNOWN-FINDING / UNDECIDED lines.

Exit codes: 0 = all obligations discharged (known findings subtracted),
            1 = an obligation fails that is not a listed known finding,
            2 = undecided (timeout, memory, extraction break, vacuity, tool error).
"""
import concurrent.futures as cf
import json
import os
import re
import shutil
import subprocess
import sys
import tempfile
import time

HERE = os.path.dirname(os.path.dirname(os.path.abspath(__file__)))
REPO = os.environ.get("VERIF_REPO", "/repo")
# evidence goes to /verif/evidence; maintenance runs against scratch copies of the repository set VERIF_EVIDENCE_DIR elsewhere
EVDIR = os.environ.get("VERIF_EVIDENCE_DIR") or os.path.join(HERE, "evidence")
CBMC_CHECKS = ["--bounds-check", "--pointer-check", "--div-by-zero-check",
               "--signed-overflow-check", "--undefined-shift-check",
               "--pointer-overflow-check"]
DEFAULT_SOLVER = ["--sat-solver", "cadical"]
MEM_KB = 14 * 1024 * 1024

_re_flags = re.M
import threading
_heavy_lock = threading.Lock()
RES_RE = re.compile(r"^\[([^\]]+)\] (?:line (\d+) )?(.*): (SUCCESS|FAILURE|UNKNOWN|ERROR)$")


def sh(cmd, cwd, timeout, log, mem_kb=None):
    """Run cmd (list) under ulimit -v; returns (rc, seconds)."""
    t0 = time.time()
    q = " ".join("'" + c.replace("'", "'\\''") + "'" for c in cmd)
    full = "ulimit -v %d; exec %s" % (mem_kb or MEM_KB, q)
    with open(log, "ab") as fh:
        fh.write(("\n$ " + q + "\n").encode())
        fh.flush()
        try:
            p = subprocess.run(["bash", "-c", full], cwd=cwd, stdout=fh, stderr=subprocess.STDOUT,
                               timeout=timeout)
            rc = p.returncode
        except subprocess.TimeoutExpired:
            rc = -999
    return rc, time.time() - t0


class Job:
    def __init__(self, id, props, harness, entry, enforce=None, replace=(), loops=True,
                 defs=(), cflags=(), cbmc=(), timeout=900, must_have=(), tier="quick",
                 unwind=None, replay=None, functions=(), note="", solver=None, bounded=None,
                 expect_fail=(), nondet_static=True, mem_gb=None, quick_only_for=(), strip_bodies=(), drop_checks=()):
        self.drop_checks = list(drop_checks)  # CBMC check flags not applied to this job (reason in the job's note)
        self.strip_bodies = list(strip_bodies)  # functions whose bodies are removed and replaced by "return nondet" (plain jobs only)
        self.quick_only_for = set(quick_only_for)  # if non-empty: part of the quick tier only for these properties
        self.mem_gb = mem_gb  # None: default 14 GB; larger values run one at a time
        self.id = id
        self.props = list(props)
        self.harness = harness
        self.entry = entry
        self.enforce = enforce
        self.replace = list(replace)
        self.loops = loops
        self.defs = list(defs)
        self.cflags = list(cflags)
        self.cbmc = list(cbmc)
        self.timeout = timeout
        self.must_have = list(must_have)
        self.tier = tier
        self.unwind = unwind
        self.replay = replay
        self.functions = list(functions) or ([enforce] if enforce else [])
        self.note = note
        self.solver = solver
        self.bounded = bounded  # text describing the bound if this is a bounded stand-in
        self.expect_fail = list(expect_fail)  # selftest: obligations that MUST fail


def run_job(job, tree, trace=False):
    """Returns dict(status, results, time, log)."""
    wd = os.path.join(tree, "jobs", job.id.replace("/", "_"))
    os.makedirs(wd, exist_ok=True)
    log = os.path.join(wd, "log.txt")
    open(log, "w").close()
    a = os.path.join(wd, "a.gb")
    b = os.path.join(wd, "b.gb")
    out = {"id": job.id, "status": "undecided", "results": [], "time": 0.0, "log": log,
           "reason": "", "solver": (job.solver or DEFAULT_SOLVER)[-1] if (job.solver or DEFAULT_SOLVER) else "minisat"}
    t_all = time.time()
    cc = ["goto-cc", "-I" + tree, "-I" + tree + "/include", "-I" + tree + "/src",
          "-I" + tree + "/examples", "-std=c99", "-DVERIF_CBMC=1", "--function", job.entry] + \
        ["-D" + d for d in job.defs] + job.cflags + [os.path.join(tree, "harness", job.harness), "-o", a]
    rc, _ = sh(cc, tree, 300, log)
    if rc != 0:
        out["reason"] = "goto-cc failed (rc %s)" % rc
        return out
    cur = a
    if job.strip_bodies:
        a2 = os.path.join(wd, "a2.gb")
        a3 = os.path.join(wd, "a3.gb")
        cmd = ["goto-instrument"]
        for f in job.strip_bodies:
            cmd += ["--remove-function-body", f]
        rc, _ = sh(cmd + [a, a2], tree, 300, log)
        if rc == 0:
            rc, _ = sh(["goto-instrument", "--generate-function-body", "|".join(job.strip_bodies),
                        "--generate-function-body-options", "nondet-return", a2, a3], tree, 300, log)
        if rc != 0:
            out["reason"] = "goto-instrument (strip bodies) failed (rc %s)" % rc
            return out
        cur = a = a3
    if not (job.enforce or job.replace or job.loops):
        # plain job: drop the functions the entry point cannot reach (dfcc does this itself); without it CBMC's
        # property instrumentation of the unrelated 8-lane vector functions of a vec256 TU does not finish
        a1 = os.path.join(wd, "a1.gb")
        rc, _ = sh(["goto-instrument", "--drop-unused-functions", a, a1], tree, 300, log)
        if rc == 0:
            cur = a = a1
    if job.enforce or job.replace or job.loops:
        gi = ["goto-instrument", "--dfcc", job.entry]
        if job.enforce:
            gi += ["--enforce-contract", job.enforce]
        # a callee that the (changed) code no longer calls cannot be replaced: goto-instrument aborts with
        # "Function to replace 'f' not found"; drop that target and try again - the remaining contracts and the
        # enforced function's own contract still decide
        replace = list(job.replace)
        for _attempt in range(len(replace) + 1):
            cmd = [x for x in gi]
            for r in replace:
                cmd += ["--replace-call-with-contract", r]
            if job.loops:
                cmd += ["--apply-loop-contracts"]
            cmd += [a, b]
            rc, _ = sh(cmd, tree, 600, log)
            if rc == 0:
                break
            m = re.findall(r"Function to replace '([^']+)' not found", open(log, errors="replace").read())
            m = [x for x in m if x in replace]
            if not m:
                break
            replace.remove(m[-1])
        if rc != 0:
            out["reason"] = "goto-instrument failed (rc %s)" % rc
            return out
        out["dropped_replacements"] = [r for r in job.replace if r not in replace]
        cur = b
    cb = ["cbmc"] + [c for c in CBMC_CHECKS if c not in getattr(job, "drop_checks", [])] + (job.solver if job.solver is not None else DEFAULT_SOLVER) + job.cbmc
    if job.unwind:
        cb += ["--unwind", str(job.unwind), "--unwinding-assertions"]
    if trace:
        cb += ["--trace"]
    cb += [cur]
    res_file = os.path.join(wd, "cbmc.txt")
    t0 = time.time()
    for ob in (None, "10", "12", "14"):
        # R9: default object bits unless CBMC asks for more; then the smallest value that works
        if os.path.exists(res_file):
            os.remove(res_file)
        cmd = cb[:-1] + (["--object-bits", ob] if ob else []) + cb[-1:]
        if job.mem_gb:
            with _heavy_lock:
                rc, secs = sh(cmd, tree, job.timeout, res_file, mem_kb=job.mem_gb * 1024 * 1024)
        else:
            rc, secs = sh(cmd, tree, job.timeout, res_file)
        txt = open(res_file, errors="replace").read()
        if not job.mem_gb and re.search(r"[Oo]ut of memory|ran out of memory", txt) and "VERIFICATION SUCCESSFUL" not in txt and "VERIFICATION FAILED" not in txt:
            # the 14 GB limit was not enough (typically: changed code that works on whole words of a symbolic-size buffer):
            # one more attempt with 40 GB, alone (heavy jobs run one at a time)
            with _heavy_lock:
                rc, secs = sh(cmd, tree, job.timeout, res_file, mem_kb=40 * 1024 * 1024)
            txt = open(res_file, errors="replace").read()
        if "too many addressed objects" not in txt:
            break
    out["time"] = time.time() - t_all
    out["solver_time"] = secs
    with open(log, "a") as fh:
        fh.write(txt[-200000:])
    if rc == -999:
        out["reason"] = "timeout after %ds" % job.timeout
        return out
    results = []
    for line in txt.splitlines():
        m = RES_RE.match(line.strip())
        if m:
            results.append({"name": m.group(1), "line": m.group(2), "desc": m.group(3), "status": m.group(4)})
    out["results"] = results
    if "VERIFICATION SUCCESSFUL" not in txt and "VERIFICATION FAILED" not in txt:
        out["reason"] = "cbmc gave no verdict (rc %s): %s" % (rc, txt.strip().splitlines()[-1:] )
        return out
    if re.search(r"ignoring (forall|exists)", txt):
        out["reason"] = "quantifier ignored by back end"
        return out
    # vacuity: canary must be present and must FAIL
    canaries = [r for r in results if "canary-reachable" in r["desc"] and r["name"].startswith(job.entry + ".")]
    if not canaries or any(r["status"] != "FAILURE" for r in canaries):
        out["reason"] = "vacuity: canary missing or not reachable"
        return out
    names = " ".join(r["name"] + ":" + r["desc"] for r in results)
    for mh in job.must_have:
        if not re.search(mh, names):
            out["reason"] = "expected obligation class missing: %s (dropped contract?)" % mh
            return out
    fails = [r for r in results if r["status"] == "FAILURE" and "canary-reachable" not in r["desc"]]
    # obligations that can never witness a property violation: an unwinding assertion (the loop needs a loop
    # contract or a larger bound) and dfcc's "local variable is not assignable" (a loop without a loop contract
    # inside a function verified with --apply-loop-contracts; a plain identifier that is not a file-scope object
    # is a local, and assigning a local is always within any frame).  Alone they mean UNDECIDED.
    def tool_limit(r):
        if ".unwind." in r["name"] or "unwinding assertion" in r["desc"]:
            return True
        m = re.match(r"Check that ([A-Za-z_][A-Za-z_0-9]*) is assignable$", r["desc"])
        return bool(m) and ".assigns." in r["name"] and not m.group(1).startswith("VG") and m.group(1) not in job_globals(tree)
    limits = [r for r in fails if tool_limit(r)]
    fails = [r for r in fails if not tool_limit(r)]
    # dfcc artefact: inside a function verified with loop contracts, a loop WITHOUT contract in a callee makes dfcc report the
    # callee's own locals as "not assignable".  When the callee is a function the loop baseline does not know (a helper that a
    # change introduced), has no static locals and the loop is executed by unwinding (bound 70, unwinding assertions on), these
    # reports are noise: the callee's locals are fresh per call, every other obligation is still checked on every path.
    noise = [r for r in limits if new_function_local(r, tree, job_dirs(job))]
    if noise and len(noise) == len(limits):
        out["ignored"] = ["[%s] %s" % (r["name"], r["desc"]) for r in noise]
        limits = []
    if limits and not fails:
        out["reason"] = "tool limit, not a violation: %s" % "; ".join("[%s] %s" % (r["name"], r["desc"]) for r in limits[:3])
        # (A second route - deciding the same contract by complete unwinding instead of loop contracts - was tried and REMOVED:
        #  without loop contracts CBMC reads a local union through one member after a write through another member with a
        #  non-literal index as stale (tk.row[index / 4] = word; ... tk.lrow), which made the unchanged skinny128_set_tk2 fail
        #  its postcondition: a false alarm.  Undecided stays undecided.)
        return out
    if not fails and any(r["status"] in ("UNKNOWN", "ERROR") for r in results):
        # (CBMC leaves properties UNKNOWN next to genuine failures; alone they mean undecided)
        out["reason"] = "obligation with UNKNOWN/ERROR status"
        return out
    out["fails"] = fails
    out["status"] = "fail" if fails else "ok"
    inv_broken = [r for r in fails if re.search(r"\.loop_(invariant_base|invariant_step|decreases|assigns|step_unwinding)\.", r["name"])]
    if fails and job.loops and (job.enforce or job.harness == "h_ct_vecloop.c") and inv_broken:
        # A loop invariant / variant of this job is not inductive for the code as it is now.  Everything CBMC reports behind the
        # havocked loop head - including memory-safety checks in the real loop body - is then evaluated in states the invariant no
        # longer describes.  The invariant may be broken because the code is wrong or because the loop was restructured; the job
        # is a VIOLATION only with a native failing input, otherwise UNDECIDED.
        out["frame_mismatch"] = "loop invariant not inductive for this code: " + "; ".join("[%s]" % r["name"] for r in inv_broken[:4])
    elif fails and job.loops and job.enforce and all(inductive_only(r, tree, job_dirs(job)) for r in fails):
        # Every failed obligation of this loop-contract job lies on a path through a havocked loop head or in the proof's own
        # scaffolding (invariant, role precondition of a replaced callee, pointer re-normalisation, ghost-stated postcondition):
        # it can mean "the code is wrong" or "the loop was restructured and needs another invariant".  No memory-safety
        # check and no frame check on a real object failed.  Reported as a VIOLATION only with a native failing input.
        out["frame_mismatch"] = "only inductive-step / scaffolding obligations failed: " + "; ".join("[%s]" % r["name"] for r in fails[:4])
    if fails and limits:
        # "local X is not assignable" INSIDE a contracted loop: the code now changes a variable the loop contract does not
        # havoc, so the inductive step ran on a wrong abstraction - its failures (and successes) say nothing about the code.
        # Such a job counts as a violation only if the native replayer exhibits a failing input on the real code.
        out["frame_mismatch"] = "; ".join("[%s] %s" % (r["name"], r["desc"]) for r in limits[:3])
    if trace:
        out["trace"] = txt
    return out


_HARD = ("pointer_dereference", "array_bounds", "overflow", "undefined-shift", "division-by-zero", "pointer_primitives",
         "precondition_instance", "no-body", "C17 erasure", "C19 constructor")


def inductive_only(r, tree, dirs=("src", "examples", "arduino")):
    """True for a failed obligation that is part of the loop proof's scaffolding (see run_job); False for memory-safety checks,
    frame checks on objects that are not locals, and checker assertions about real memory (C17)"""
    name, desc = r["name"], r["desc"]
    if any(h in name or h in desc for h in _HARD):
        return False
    if ".assigns." in name:
        m = re.match(r"Check that ([A-Za-z_][A-Za-z_0-9]*) is assignable$", desc)
        return bool(m) and m.group(1) not in file_scope_names(tree, dirs) and not m.group(1).startswith("VG")
    return True


_fninfo_cache = {}


def job_dirs(job):
    """the directory of the translation unit a job verifies (file-scope names of OTHER programs are irrelevant to it)"""
    h = getattr(job, "harness", "") or ""
    return ("examples",) if h.startswith("h_ex_") else ("arduino",) if h.startswith("h_ard_") else ("src",)


def new_function_local(r, tree, dirs=("src", "examples", "arduino")):
    """True for dfcc's "Check that <local> is assignable" inside a function that has a loop but is absent from the loop baseline"""
    if not re.match(r"Check that [A-Za-z_][A-Za-z_0-9]* is assignable$", r["desc"]) or ".assigns." not in r["name"]:
        return False
    fn = r["name"].split(".assigns.")[0]
    ident = re.match(r"Check that ([A-Za-z_][A-Za-z_0-9]*) is assignable$", r["desc"]).group(1)
    if ident in file_scope_names(tree, dirs):
        return False     # an object with static storage duration: a write outside the frame is a genuine finding
    if tree not in _fninfo_cache:
        base = set()
        bp = os.path.join(HERE, "contracts", "loop_baseline.json")
        if os.path.exists(bp):
            base = set(k.split("::")[1] for k in json.load(open(bp)))
        cur, stat, lines = set(), set(), {}
        for sub in ("src", "examples", "arduino"):
            fp = os.path.join(tree, sub, "verif_loops.json")
            if os.path.exists(fp):
                d = json.load(open(fp))
                stat |= set(d.get("__static_locals__", []))
                cur |= set(k.split("::")[1] for k, v in d.items() if not k.startswith("__") and v)
                for k, v in d.get("__loop_lines__", {}).items():
                    lines.setdefault(k.split("::")[1], []).extend(v)
        _fninfo_cache[tree] = (base, cur, stat, lines)
    base, cur, stat, lines = _fninfo_cache[tree]
    if fn in stat:
        return False
    if fn in cur and fn not in base:
        return True
    # a function the baseline knows: the report is noise only if its line lies inside loops that are ALL unknown to the baseline
    # (ordinal > 100, i.e. added by the change) - a contract-less loop next to, not inside, the contracted ones
    m = re.search(r"(\d+)", str(r.get("line", "")))
    if not m:
        return False
    ln = int(m.group(1))
    inside = [o for (o, a, b) in lines.get(fn, []) if b is not None and a <= ln <= b]
    return bool(inside) and all(o > 100 for o in inside)


_fs_cache = {}


def file_scope_names(tree, dirs):
    key = (tree, dirs)
    if key not in _fs_cache:
        names = set()
        for d in dirs:
            dd = os.path.join(tree, d)
            if not os.path.isdir(dd):
                continue
            for f in os.listdir(dd):
                if f.endswith((".c", ".h")):
                    txt = open(os.path.join(dd, f), errors="replace").read()
                    for m in re.finditer(r"^(?:static\s+|extern\s+)?(?:const\s+|volatile\s+)*[A-Za-z_][A-Za-z_0-9]*(?:\s+const)?\s+\**\s*([A-Za-z_][A-Za-z_0-9]*)\s*(?:\[[^;{]*\])*\s*(?:=|;)", txt, re.M):
                        names.add(m.group(1))
        _fs_cache[key] = names
    return _fs_cache[key]


_globals_cache = {}


def job_globals(tree):
    """file-scope identifiers of the repository sources (objects with static storage duration): a write to one
    of them that a frame does not list IS a genuine frame violation (C18), unlike a write to a local"""
    if tree not in _globals_cache:
        names = set()
        for d in ("src",):   # the example tools are separate programs with their own globals
            dd = os.path.join(tree, "pre" if d == "src" else d)
            if not os.path.isdir(dd):
                dd = os.path.join(tree, d)
            for f in os.listdir(dd):
                if f.endswith((".c", ".h")):
                    txt = open(os.path.join(dd, f), errors="replace").read()
                    for m in re.finditer(r"^(?:static\s+|extern\s+)?(?:const\s+)?[A-Za-z_][A-Za-z_0-9]*(?:\s+const)?\s+\**\s*([A-Za-z_][A-Za-z_0-9]*)\s*(?:\[[^;{]*\])*\s*(?:=|;)", txt, _re_flags):
                        names.add(m.group(1))
        _globals_cache[tree] = names
    return _globals_cache[tree]


def build_tree(tree):
    rc = subprocess.call([os.path.join(HERE, "engine", "mktree.sh"), REPO, tree])
    return rc


def load_known():
    p = os.path.join(HERE, "known_findings.json")
    if os.path.exists(p):
        return json.load(open(p)).get("findings", [])
    return []


def match_known(prop, job, fail, known):
    for k in known:
        if k.get("status") != "open":
            continue
        if k["property"] != prop:
            continue
        if not re.fullmatch(k["job"], job.id):
            continue
        if re.search(k["obligation"], fail["name"] + " " + fail["desc"]):
            return k
    return None


def run_check(prop, jobs, tier, replay_fn=None, extra_assumptions=(), level_text="", static_results=()):
    """Run all jobs of a property; write evidence; print verdict lines; return exit code."""
    t0 = time.time()
    seed = int(os.environ.get("VERIF_SEED", "0") or 0)
    tree = tempfile.mkdtemp(prefix="verif_%s_" % prop, dir=os.environ.get("VERIF_SCRATCH", "/tmp"))
    code = 0
    lines = []
    try:
        rc = build_tree(tree)
        if rc != 0:
            print("UNDECIDED property=%s reason=extraction-break (mktree rc %d)" % (prop, rc))
            write_evidence(prop, tier, seed, [], [], time.time() - t0, ["extraction break"], level_text, undecided=["mktree"])
            return 2
        sel = [j for j in jobs if prop in j.props and (tier == "thorough" or (j.tier == "quick" and
               (not j.quick_only_for or prop in j.quick_only_for or prop == "ALL")))]
        nw = int(os.environ.get("VERIF_JOBS", "16"))
        with cf.ThreadPoolExecutor(max_workers=nw) as ex:
            outs = list(ex.map(lambda j: run_job(j, tree), sel))
        known = load_known()
        viol = []
        undec = []
        kf = []
        for j, o in zip(sel, outs):
            if o["status"] == "undecided":
                undec.append((j, o))
            elif o["status"] == "fail":
                for f in o["fails"]:
                    k = match_known(prop, j, f, known)
                    if k:
                        kf.append((j, f, k))
                    else:
                        viol.append((j, o, f))
        for (j, f, k) in kf:
            pass
        seen_k = set()
        for (j, f, k) in kf:
            if k["id"] in seen_k:
                continue
            seen_k.add(k["id"])
            print("KNOWN-FINDING: property=%s %s [%s: %s]" % (prop, k["what"], j.id, f["name"]))
        os.makedirs(os.path.join(EVDIR, "replay"), exist_ok=True)
        done_jobs = set()
        vjobs = []
        for (j, o, f) in viol:
            if j.id not in done_jobs:
                done_jobs.add(j.id)
                vjobs.append((j, o))
        # counterexample traces (second run of each failing job, in parallel) and native replays
        # (once per replay family)
        traces = {}
        if vjobs:
            with cf.ThreadPoolExecutor(max_workers=nw) as ex:
                for (j, o), to in zip(vjobs, ex.map(lambda jo: run_job(jo[0], tree, trace=True), vjobs)):
                    traces[j.id] = to
        fam_cache = {}
        for (j, o) in vjobs:
            rp = os.path.join(EVDIR, "replay", "%s_%s.txt" % (prop, j.id.replace("/", "_")))
            jf = [x[2] for x in viol if x[0].id == j.id]
            found = False
            with open(rp, "w") as fh:
                fh.write("property: %s\njob: %s\nfunction(s) under contract: %s\n" % (prop, j.id, ", ".join(j.functions)))
                fh.write("failed obligations:\n")
                for x in jf:
                    fh.write("  [%s] line %s %s\n" % (x["name"], x["line"], x["desc"]))
                to = traces.get(j.id, {})
                if replay_fn and j.replay:
                    try:
                        ck = (j.replay, tuple(d for d in j.defs if d.startswith("SKINNY_VERIF_")))
                        if ck not in fam_cache:
                            fam_cache[ck] = replay_fn(j, to, tree, seed)
                        found, text = fam_cache[ck]
                        fh.write("\n--- native replay (%s) ---\n%s\n" % (j.replay, text))
                    except Exception as e:  # replay problems never hide the violation
                        fh.write("\nreplay error: %r\n" % (e,))
                else:
                    fh.write("\n(no native replayer registered for this job)\n")
                tr = to.get("trace", "") or open(o["log"], errors="replace").read()
                fh.write("\n--- verifier output (tail) ---\n%s\n" % tr[-20000:])
            if o.get("frame_mismatch") and not found:
                o["status"] = "undecided"
                o["reason"] = ("loop proof does not fit the code (%s): such failures are evidence only together with a failing input on the "
                               "real code, and the native replay found none" % o["frame_mismatch"])
                undec.append((j, o))
                done_jobs.discard(j.id)
                os.replace(rp, rp[:-4] + ".undecided.txt")    # kept for inspection, not a violation record
                continue
            print("VIOLATION property=%s replay=%s%s" % (prop, rp, "" if found else " no-failing-input-found"))
            code = 1
        for st in static_results:
            if st.get("error"):
                print("UNDECIDED property=%s job=static reason=%s" % (prop, st["error"]))
                if code == 0:
                    code = 2
            elif st.get("violations"):
                rp = os.path.join(EVDIR, "replay", "%s_%s.txt" % (prop, st["job"]["job"]))
                with open(rp, "w") as fh:
                    fh.write("property: %s\njob: %s\n%s\nfailing facts on the real object files:\n" % (prop, st["job"]["job"], st["job"].get("note", "")))
                    for v in st["violations"]:
                        fh.write("  " + v + "\n")
                print("VIOLATION property=%s replay=%s no-failing-input-found" % (prop, rp))    # a static fact about the code, no input involved
                code = 1
        # a job the verifier could not decide (time, memory, code it cannot take): the native replayer still runs its family on
        # the real code; a failing input found there is a violation in its own right (with the input), whatever the verifier said
        still = []
        for (j, o) in undec:
            found, text = False, ""
            if replay_fn and j.replay and not o.get("frame_mismatch"):
                try:
                    ck = (j.replay, tuple(d for d in j.defs if d.startswith("SKINNY_VERIF_")))
                    if ck not in fam_cache:
                        fam_cache[ck] = replay_fn(j, {}, tree, seed)
                    found, text = fam_cache[ck]
                except Exception as e:
                    text = "replay error: %r" % (e,)
            if found:
                rp = os.path.join(EVDIR, "replay", "%s_%s.txt" % (prop, j.id.replace("/", "_")))
                with open(rp, "w") as fh:
                    fh.write("property: %s\njob: %s\nfunction(s) under contract: %s\n" % (prop, j.id, ", ".join(j.functions)))
                    fh.write("failed obligations:\n  (none decided: the verifier gave no verdict - %s)\n" % o["reason"])
                    fh.write("\n--- native replay (%s): failing input on the real code ---\n%s\n" % (j.replay, text))
                print("VIOLATION property=%s replay=%s" % (prop, rp))
                code = 1
                done_jobs.add(j.id)
            else:
                still.append((j, o))
        undec = still
        for (j, o) in undec:
            print("UNDECIDED property=%s job=%s reason=%s" % (prop, j.id, o["reason"]))
            if code == 0:
                code = 2
        write_evidence(prop, tier, seed, sel, outs, time.time() - t0, list(extra_assumptions), level_text,
                       undecided=[j.id for j, _ in undec], violations=len(done_jobs),
                       known=[k["id"] for (_, _, k) in kf], static_results=static_results,
                       known_obligations=set((j.id, f["name"]) for (j, f, _) in kf))
        if code == 0:
            n = sum(len([r for r in o["results"] if "canary" not in r["desc"]]) for o in outs)
            print("OK property=%s tier=%s jobs=%d obligations=%d wall=%.0fs" % (prop, tier, len(sel), n, time.time() - t0))
        return code
    finally:
        if not os.environ.get("VERIF_KEEP"):
            shutil.rmtree(tree, ignore_errors=True)
        else:
            print("scratch kept:", tree)


TRUSTED = [
    "CBMC 6.11 front end, goto-instrument dfcc contract instrumentation and the SAT back end (CaDiCaL unless noted)",
    "spec/gen_spec.py transcription of the SKINNY/MANTIS papers (validated natively on the 10 published vectors at setup and in every run)",
    "ghost code is deterministic straight-line C; the ghost program IS the specification it is compared with",
    "meta-induction over API call histories from per-operation contracts",
    "C semantics as modelled by CBMC (64-bit little-endian x86-64, GCC vector extensions); compiler code generation is not verified",
]


def write_evidence(prop, tier, seed, sel, outs, wall, assumptions, level_text, undecided=(), violations=0,
                   known=(), static_results=(), known_obligations=()):
    obligations = 0
    discharged = 0
    samples = []
    jobs = []
    funcs = set()
    bounded = []
    for j, o in zip(sel, outs):
        # obligations matched by a listed known finding are reported separately, not counted as proof obligations
        ign = set(o.get("ignored", []))
        rs = [r for r in o.get("results", []) if "canary-reachable" not in r["desc"] and (j.id, r["name"]) not in known_obligations
              and ("[%s] %s" % (r["name"], r["desc"])) not in ign]
        obligations += len(rs)
        discharged += len([r for r in rs if r["status"] == "SUCCESS"])
        for r in rs[:1] + [r for r in rs if "postcondition" in r["name"] or "loop_invariant" in r["name"]][:2]:
            samples.append("%s: [%s] %s -> %s" % (j.id, r["name"], r["desc"][:120], r["status"]))
        jobs.append({"job": j.id, "functions_under_contract": j.functions, "enforced": j.enforce,
                     "callees_replaced_by_contract": j.replace, "loop_contracts": j.loops,
                     "unwind": j.unwind, "bounded": j.bounded, "obligations": len(rs),
                     "discharged": len([r for r in rs if r["status"] == "SUCCESS"]),
                     "status": o["status"], "reason": o.get("reason", ""), "backend": o.get("solver"),
                     "seconds": round(o.get("time", 0), 1), "note": j.note,
                     "ignored_dfcc_artefacts": sorted(ign)})
        funcs.update(j.functions)
        if j.bounded:
            bounded.append("%s: %s" % (j.id, j.bounded))
    for s in static_results:
        if s.get("error"):
            continue
        obligations += s["obligations"]
        discharged += s["discharged"]
        samples += s.get("samples", [])
        jobs.append(s["job"])
    ev = {
        "property_id": prop, "tier": tier, "seed": seed, "level": "proof",
        "coverage": {
            "obligations": obligations, "discharged": discharged,
            "checker_cmd": "goto-cc --function <h> ; goto-instrument --dfcc <h> --enforce-contract <f> [--replace-call-with-contract <g>] --apply-loop-contracts ; cbmc " + " ".join(CBMC_CHECKS + DEFAULT_SOLVER),
            "trusted_base": TRUSTED,
            "functions_under_contract": sorted(funcs),
            "jobs": jobs,
            "bounded_stand_ins": bounded,
            "undecided_jobs": list(undecided),
            "known_findings_matched": sorted(set(known)),
            "known_finding_obligations": sorted("%s: %s" % x for x in known_obligations),
            "samples": samples[:40],
            "explanation": level_text,
        },
        "assumptions": TRUSTED + list(assumptions),
        "wall_s": round(wall, 1),
        "violations": violations,
    }
    os.makedirs(os.path.join(EVDIR), exist_ok=True)
    with open(os.path.join(EVDIR, prop + ".json"), "w") as fh:
        json.dump(ev, fh, indent=1)
