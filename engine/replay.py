"""Native replay of failed obligations against the real library.

The replayer (replay/replay_api.c) is linked against a library built, on the
spot, from /repo's working tree (no instrumentation, ASan+UBSan) and the spec
reference.  The family of the failed job selects structured + seeded
differential tests of the PUBLIC API (for inductive-step failures: the real
entry point with a one-round schedule, which is the verifier's step on real
code).  A failing input is written to the replay file; otherwise the caller
reports no-failing-input-found."""
import os
import subprocess
import threading

HERE = os.path.dirname(os.path.dirname(os.path.abspath(__file__)))
REPO = os.environ.get("VERIF_REPO", "/repo")
_lock = threading.Lock()


def build(tree, variant="", defs=()):
    out = os.path.join(tree, "replay_build" + variant)
    exe = os.path.join(out, "replay_api")
    with _lock:
        if not os.path.exists(exe):
            os.makedirs(out, exist_ok=True)
            env = dict(os.environ)
            if defs:
                # same compile-time path as the failed job (guarded hook H1)
                env["REPLAY_DEFS"] = " ".join("-D" + d for d in defs)
            p = subprocess.run([os.path.join(HERE, "replay", "build.sh"), REPO, out],
                               stdout=subprocess.PIPE, stderr=subprocess.STDOUT, env=env)
            if p.returncode != 0:
                return None, p.stdout.decode(errors="replace")[-3000:]
    return exe, ""


def run_family(tree, family, seed, extra=(), timeout=600, defs=()):
    variant = ("_" + "_".join(d.replace("SKINNY_VERIF_", "").replace("=", "") for d in defs)) if defs else ""
    exe, err = build(tree, variant, defs)
    if not exe:
        return False, "replayer build failed:\n" + err
    texts = []
    found = False
    for fam in family.split(","):
        try:
            fexe = exe
            if fam.startswith("ard"):   # C19: the Arduino classes compiled for the host, against the same library objects
                fexe = os.path.join(os.path.dirname(exe), "replay_arduino")
                if not os.path.exists(fexe):
                    texts.append("$ replay_arduino %s %s\n(not built: the Arduino sources did not compile for the host)" % (fam, seed))
                    continue
            p = subprocess.run([fexe, fam, str(seed)] + list(extra), stdout=subprocess.PIPE,
                               stderr=subprocess.STDOUT, timeout=timeout)
            txt = p.stdout.decode(errors="replace")
        except subprocess.TimeoutExpired:
            txt = "replay timeout"
            p = None
        texts.append("$ %s %s %s\n%s" % (os.path.basename(fexe), fam, seed, txt[-6000:]))
        if "REPLAY-FAIL" in txt or (p is not None and p.returncode not in (0, 2) and ("Sanitizer" in txt or "runtime error:" in txt)):
            found = True
            break
    return found, "\n".join(texts)


def replay(job, out, tree, seed):
    defs = [d for d in job.defs if d.startswith("SKINNY_VERIF_")]
    return run_family(tree, job.replay, seed, defs=defs)
