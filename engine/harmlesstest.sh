#!/bin/bash
# harmlesstest.sh <patch.diff> <property>...: apply a BEHAVIOUR-PRESERVING change to /repo, run the quick checks of the
# given properties, undo the change.  Expected: every check exits 0.  Prints QUIET (exit 0), FALSE-ALARM (exit 1 + VIOLATION:
# the machinery is wrong and must be repaired) or UNDECIDED (exit 2: the tool could not decide the edited code).
P="$(cd "$(dirname "$1")" && pwd)/$(basename "$1")"; shift
git -C /repo diff --quiet || { echo "repo working tree not clean"; exit 2; }
git -C /repo apply "$P" || { echo "patch does not apply"; exit 2; }
trap 'git -C /repo checkout -- . >/dev/null 2>&1' EXIT
for p in "$@"; do
  out=$(cd /verif && python3 checks/check.py $p $HARMLESS_ARGS 2>&1); rc=$?
  case $rc in
    0) echo "HARMLESS $(basename $(dirname $P))/$(basename $P) $p: QUIET";;
    1) echo "HARMLESS $(basename $(dirname $P))/$(basename $P) $p: FALSE-ALARM: $(echo "$out" | grep "^VIOLATION" | head -3 | sed 's/.*replay=.*replay\///' | tr '\n' ' ')";;
    *) echo "HARMLESS $(basename $(dirname $P))/$(basename $P) $p: UNDECIDED rc=$rc: $(echo "$out" | grep UNDECIDED | head -3 | cut -c1-220 | tr '\n' ' ')";;
  esac
done
