#!/usr/bin/env python3
"""DESIGN 2.2(a): CBMC 6.11 lowers `>>` on GCC vector operands to an untyped shift that
evaluates to garbage.  This script rewrites, by TYPE (clang JSON AST), every BinaryOperator `>>`
whose result type is one of the library's vector typedefs into
    SKINNY_VERIF_VSHR_<type>((lhs), (rhs))
which contracts/verif_common.h defines lane-wise - GCC's documented semantics of vector >> scalar.
Nothing else is changed.  usage: vshr.py <src.c> <out.c> <include-dir> <cflag>...
Exit 3 (extraction break) if a vector shift has a shape the script does not handle."""
import json
import subprocess
import sys

VEC_TYPES = ("SkinnyVector4x32_t", "SkinnyVector8x16_t", "SkinnyVector8x32_t",
             "SkinnyVector4x32U_t", "SkinnyVector8x16U_t", "SkinnyVector8x32U_t")


def main():
    src, out, inc = sys.argv[1], sys.argv[2], sys.argv[3]
    flags = sys.argv[4:]
    p = subprocess.run(["clang", "-std=c99", "-fsyntax-only", "-I" + inc, "-Xclang", "-ast-dump=json"] + flags + [src],
                       stdout=subprocess.PIPE, stderr=subprocess.PIPE)
    if p.returncode != 0:
        sys.stderr.write("EXTRACTION-BREAK: clang failed on %s\n%s\n" % (src, p.stderr.decode()[-2000:]))
        return 3
    ast = json.loads(p.stdout)
    text = open(src, encoding="utf-8", errors="surrogateescape").read()
    data = text.encode("utf-8", errors="surrogateescape")
    edits = []
    problems = []
    count = [0]

    def end_of(r):
        return r["end"]["offset"] + r["end"]["tokLen"]

    def in_main(r):
        b, e = r["begin"], r["end"]
        return "offset" in b and "offset" in e and "includedFrom" not in b and "includedFrom" not in e \
            and "spellingLoc" not in b and "spellingLoc" not in e and "expansionLoc" not in b

    def walk(n):
        if isinstance(n, dict):
            k = n.get("kind")
            if k in ("BinaryOperator", "CompoundAssignOperator") and n.get("opcode") in (">>", ">>="):
                t = n.get("type", {}).get("qualType", "")
                dt = n.get("type", {}).get("desugaredQualType", t)
                is_vec = t in VEC_TYPES or "vector" in dt
                if is_vec:
                    if n.get("opcode") != ">>" or t not in VEC_TYPES:
                        problems.append("vector %s of type %s" % (n.get("opcode"), t))
                    else:
                        lhs, rhs = n["inner"]
                        rt = rhs.get("type", {}).get("qualType", "")
                        if rt in VEC_TYPES or not in_main(n["range"]) or not in_main(lhs["range"]) or not in_main(rhs["range"]):
                            problems.append("vector >> with vector count or macro-expanded operands at %r" % (n["range"]["begin"],))
                        else:
                            lb, le = lhs["range"]["begin"]["offset"], end_of(lhs["range"])
                            rb, re_ = rhs["range"]["begin"]["offset"], end_of(rhs["range"])
                            mid = data[le:rb].decode()
                            if mid.strip() != ">>":
                                problems.append("unexpected text %r between operands" % mid)
                            else:
                                edits.append((lb, lb, 0, "SKINNY_VERIF_VSHR_%s((" % t))
                                edits.append((le, rb, 1, "), ("))
                                edits.append((re_, re_, 2, "))"))
                                count[0] += 1
            for v in n.values():
                walk(v)
        elif isinstance(n, list):
            for v in n:
                walk(v)

    walk(ast)
    if problems:
        sys.stderr.write("EXTRACTION-BREAK: %s: %s\n" % (src, "; ".join(problems[:5])))
        return 3
    # apply: at equal positions closing parentheses (kind 2) come before separators and openers;
    # nested openers keep AST (outer first) order, nested closers inner first (reverse order)
    openers = [e for e in edits if e[2] == 0]
    seps = [e for e in edits if e[2] == 1]
    closers = [e for e in edits if e[2] == 2]
    pieces = {}
    for (a, b, k, tx) in closers[::-1]:
        pieces.setdefault(a, {"close": [], "sep": None, "open": []})["close"].insert(0, tx)
    for (a, b, k, tx) in seps:
        pieces.setdefault(a, {"close": [], "sep": None, "open": []})["sep"] = (b, tx)
    for (a, b, k, tx) in openers:
        pieces.setdefault(a, {"close": [], "sep": None, "open": []})["open"].append(tx)
    outb = []
    pos = 0
    for a in sorted(pieces):
        pc = pieces[a]
        outb.append(data[pos:a])
        pos = a
        outb.append("".join(pc["close"]).encode())
        if pc["sep"]:
            outb.append(pc["sep"][1].encode())
            pos = pc["sep"][0]
        outb.append("".join(pc["open"]).encode())
    outb.append(data[pos:])
    open(out, "wb").write(b"".join(outb))
    sys.stderr.write("vshr: %s: %d vector right shifts rewritten\n" % (src, count[0]))
    return 0


if __name__ == "__main__":
    sys.exit(main())
