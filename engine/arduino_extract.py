#!/usr/bin/env python3
"""C19: mechanical extraction of the PORTABLE method bodies of the Arduino port to C.

CBMC's C++ front end cannot take these classes.  On every run this script
  1. runs `g++ -E -P -x c++` on <File>.cpp (host: __AVR__ undefined, so only the portable branches of
     `#if USE_AVR_INLINE_ASM` survive, utility macros such as leftRotate8 are expanded);
  2. cuts out, by brace matching on the preprocessed text, every top-level function definition after the last
     system header: free inline helpers and `Class::method` definitions with their EXACT body text;
  3. reads the data members of every class from the class definitions and evaluates the constructor
     initialiser chains (all constructor BODIES must be empty, otherwise: extraction break);
  4. emits, for one leaf class K, a C translation unit in which the data members of K and its bases are
     file-scope variables (the pointer/round-count members initialised as the constructor chain initialises
     them), every method of K and its bases is a C function `Class__method` with the body text verbatim,
     `Base::method(` spelled `Base__method(`, default arguments appended at call sites (taken from the
     declaration), `clean(x)` / `clean(p,n)` mapped to memset-to-zero, and `bool` from <stdbool.h>.
What is dropped and NOT verified: constructors/destructors (only their initialiser lists are interpreted),
virtual dispatch, access control, the AVR inline-assembly branches, PROGMEM access macros' AVR variants.
Exit 3 = extraction break (a rule did not fire exactly as required)."""
import re
import subprocess
import sys


class Break(Exception):
    pass


def match(text, i, o, c):
    d = 0
    while i < len(text):
        if text[i] == o:
            d += 1
        elif text[i] == c:
            d -= 1
            if d == 0:
                return i
        i += 1
    raise Break("unbalanced " + o)


def preprocess(cpp, incdir):
    """returns (all text without line markers, text of the main file only)"""
    p = subprocess.run(["g++", "-E", "-x", "c++", "-I" + incdir, cpp], stdout=subprocess.PIPE, stderr=subprocess.PIPE)
    if p.returncode != 0:
        raise Break("g++ -E failed: " + p.stderr.decode()[-500:])
    alltext, maintext = [], []
    cur = None
    base = cpp.split("/")[-1]
    for line in p.stdout.decode().splitlines():
        m = re.match(r'# \d+ "([^"]*)"', line)
        if m:
            cur = m.group(1)
            continue
        alltext.append(line)
        if cur is not None and cur.split("/")[-1] == base:
            maintext.append(line)
    return "\n".join(alltext) + "\n", "\n".join(maintext) + "\n"


def parse_classes(text):
    """class name -> dict(base, members[(type, name, dims)], methods{name: (ret, params-with-defaults)})"""
    classes = {}
    for m in re.finditer(r"\bclass\s+(\w+)\s*(?::\s*public\s+(\w+))?\s*\{", text):
        name, base = m.group(1), m.group(2)
        e = match(text, m.end() - 1, "{", "}")
        body = text[m.end():e]
        members, methods = [], {}
        body = re.sub(r"\b(public|private|protected)\s*:", "", body)
        # anonymous aggregate members:  struct { ... } name;
        while True:
            ma = re.search(r"\b(struct|union)\s*\{", body)
            if not ma:
                break
            ae = match(body, ma.end() - 1, "{", "}")
            mn = re.match(r"\s*(\w+)\s*;", body[ae + 1:])
            if not mn:
                raise Break("unsupported nested aggregate in class " + name)
            members.append((" ".join(body[ma.start():ae + 1].split()), mn.group(1), ""))
            body = body[:ma.start()] + body[ae + 1 + mn.end():]
        # inline method bodies inside the class definition: keep the declaration only
        while True:
            mi = re.search(r"\)\s*(const\s*)?\{", body)
            if not mi:
                break
            ie = match(body, mi.end() - 1, "{", "}")
            body = body[:mi.start() + 1] + ";" + body[ie + 1:]
        for stmt in re.split(r";", body):
            s = " ".join(stmt.split())
            if not s:
                continue
            if "(" in s:
                mm = re.match(r"(?:virtual\s+|static\s+|explicit\s+)*(?:([\w\s\*&:<>]+?)\s+)?(~?\w+)\s*\((.*)\)\s*(const)?\s*(=\s*0)?$", s)
                if mm and mm.group(2) not in (name, "~" + name):
                    methods[mm.group(2)] = (mm.group(1) or "void", mm.group(3))
                continue
            mm = re.match(r"([\w\s]+?[\s\*]+)(\w+)((?:\[[^\]]*\])*)$", s)
            if mm:
                members.append((mm.group(1).strip(), mm.group(2), mm.group(3)))
        classes[name] = {"base": base, "members": members, "methods": methods}
    return classes


def parse_functions(text):
    """top-level function definitions: list of dict(inline, cls, name, ret, params, init, body)"""
    out = []
    depth = 0
    last = 0      # index after the last top-level ';' or '}'
    i = 0
    n = len(text)
    while i < n:
        ch = text[i]
        if ch == '"':
            j = i + 1
            while j < n and text[j] != '"':
                j += 2 if text[j] == "\\" else 1
            i = j + 1
            continue
        if ch == "{":
            if depth == 0:
                head = " ".join(text[last:i].split())
                e = match(text, i, "{", "}")
                body = text[i:e + 1]
                if "(" in head and not re.match(r"(class|struct|namespace|extern|typedef|enum|union|template)\b", head) and "operator" not in head:
                    init = ""
                    # split an initialiser list off: the ':' after the closing parenthesis of the parameter list
                    pp = head.find("(")
                    pe = match(head, pp, "(", ")")
                    rest = head[pe + 1:].strip()
                    const = False
                    if rest.startswith("const"):
                        const = True
                        rest = rest[5:].strip()
                    if rest.startswith(":"):
                        init = rest[1:].strip()
                        rest = ""
                    if rest == "" or rest.startswith("noexcept"):
                        pre = head[:pp].strip()
                        params = head[pp + 1:pe]
                        mh = re.match(r"(?:(inline)\s+)?(?:(.*?)\s*)?\b((\w+)::)?(~?\w+)$", pre)
                        if mh:
                            out.append({"inline": bool(mh.group(1)), "ret": re.sub(r"\b(static|inline)\b", "", mh.group(2) or "").strip(), "cls": mh.group(4),
                                        "name": mh.group(5), "params": params, "init": init, "body": body, "const": const})
                i = e + 1
                last = i
                continue
            depth += 1
        elif ch == "}":
            depth -= 1
            if depth == 0:
                last = i + 1
        elif ch == ";" and depth == 0:
            last = i + 1
        i += 1
    return out


def parse_other_decls(text):
    """top-level declarations of the main file that are not function definitions (typedefs, unions, const tables)"""
    out = []
    depth = 0
    last = 0
    i, n = 0, len(text)
    while i < n:
        ch = text[i]
        if ch == "{":
            depth += 1
        elif ch == "}":
            depth -= 1
            if depth == 0:
                # a function body or an aggregate: function bodies are followed by no ';'
                j = i + 1
                while j < n and text[j].isspace():
                    j += 1
                if j >= n or text[j] != ";":
                    head = text[last:i]
                    if "(" in head.split("{")[0] and "=" not in head.split("{")[0]:
                        last = i + 1      # function definition: skip
        elif ch == ";" and depth == 0:
            d = text[last:i + 1].strip()
            if d and not re.match(r"(using|template|extern \"C)", d):
                out.append(d)
            last = i + 1
        i += 1
    return out


def hierarchy(classes, k):
    chain = []
    while k and k in classes:
        chain.append(k)
        k = classes[k]["base"]
    return chain  # leaf first


def split_args(s):
    args, d, cur = [], 0, ""
    for ch in s:
        if ch in "([{":
            d += 1
        elif ch in ")]}":
            d -= 1
        if ch == "," and d == 0:
            args.append(cur.strip())
            cur = ""
        else:
            cur += ch
    if cur.strip():
        args.append(cur.strip())
    return args


def ctor_state(classes, funcs, leaf, libclasses):
    """evaluate the constructor initialiser chain of `leaf`: returns {member: expression text}"""
    env = {}
    state = {}
    cls = leaf
    args = []
    while cls in libclasses:
        ctor = [f for f in funcs if f["cls"] == cls and f["name"] == cls]
        if len(ctor) != 1:
            raise Break("constructor of %s not found exactly once" % cls)
        ctor = ctor[0]
        if ctor["body"].strip("{} \n\t") != "":
            # the only constructor statements inside the extraction's subset: zero-filling an ARRAY data member of the chain,
            # memset(m, 0, sizeof(m)); - exactly the value the member's file-scope object has before any method runs
            # (C static storage is zero-initialised), so nothing needs to be emitted for it.  Anything else: extraction break.
            inner = ctor["body"].strip()
            inner = inner[1:-1] if inner.startswith("{") and inner.endswith("}") else inner
            for st in [x.strip() for x in inner.split(";") if x.strip()]:
                ms = re.match(r"memset\s*\(\s*(\w+)\s*,\s*0\s*,\s*sizeof\s*\(\s*(\w+)\s*\)\s*\)$", st)
                arrs = [nm for c in classes for (ty, nm, dims) in classes[c]["members"] if dims]
                if not (ms and ms.group(1) == ms.group(2) and ms.group(1) in arrs):
                    raise Break("constructor of %s has a body statement outside the subset (only memset(<array member>, 0, sizeof(<it>)) is understood): %r" % (cls, st[:60]))
        params = [p.split()[-1].lstrip("*&") for p in split_args(ctor["params"])] if ctor["params"].strip() else []
        if len(params) != len(args):
            raise Break("constructor arity mismatch in %s" % cls)
        env = dict(zip(params, args))
        nxt, nargs = None, []
        for item in split_args(ctor["init"]):
            mi = re.match(r"(\w+)\s*\((.*)\)$", item)
            if not mi:
                raise Break("initialiser %r not understood" % item)
            tgt, val = mi.group(1), split_args(mi.group(2))
            val = [env.get(v, v) for v in val]
            if tgt in classes and tgt != cls:
                nxt, nargs = tgt, val
            else:
                state[tgt] = val[0] if val else "0"
        if nxt is None:
            break
        cls, args = nxt, nargs
    return state


def emit(cpp, incdir, leaf, libclasses):
    text, maintext = preprocess(cpp, incdir)
    classes = parse_classes(text)
    funcs = parse_functions(maintext)
    other = parse_other_decls(maintext)
    if leaf not in classes:
        raise Break("class %s not found" % leaf)
    chain = [c for c in hierarchy(classes, leaf) if c in libclasses]
    o = []
    w = o.append
    w("/* GENERATED on this run by engine/arduino_extract.py from %s for class %s (hierarchy: %s).\n"
      "   Method bodies are the preprocessed source text, verbatim. */\n" % (cpp.split("/")[-1], leaf, " : ".join(chain)))
    w("#include <stdint.h>\n#include <stddef.h>\n#include <string.h>\n#include <stdbool.h>\n")
    # clean(): the two-argument function is taken verbatim from Crypto.cpp; the one-argument template
    # clean(T &var) { clean(&var, sizeof(T)); } of Crypto.h is expanded at its uses (VERIF_CLEAN1)
    import os
    ctext, cmain = preprocess(os.path.join(incdir, "Crypto.cpp"), incdir)
    cl = [f for f in parse_functions(cmain) if f["cls"] is None and f["name"] == "clean"]
    if len(cl) != 1:
        raise Break("clean() not found in Crypto.cpp")
    w("static void clean(%s)\n%s\n" % (cl[0]["params"], cl[0]["body"]))
    w("#define VERIF_CLEAN1(x) clean(&(x), sizeof(x))\n#define VERIF_CLEAN2(p, n) clean((p), (n))\n")
    # data members
    state = ctor_state(classes, funcs, leaf, libclasses)
    ifdecl = []
    w("/* ---- data members of %s as file-scope objects ---- */\n" % " : ".join(chain))
    for c in reversed(chain):
        for (ty, nm, dims) in classes[c]["members"]:
            mt = re.match(r"(\w+)\s*\*$", ty)
            if mt and mt.group(1) in classes:
                ifdecl.append("/* %s::%s (pointer to a %s) dropped: calls through it become %s__<method>() */\n" % (c, nm, mt.group(1), mt.group(1)))
                for (mn, (ret, params)) in classes[mt.group(1)]["methods"].items():
                    ifdecl.append("#ifndef VC_%s__%s\n#define VC_%s__%s\n#endif\n" % (mt.group(1), mn, mt.group(1), mn))
                    ifdecl.append("%s %s__%s(%s) VC_%s__%s;\n" % (ret, mt.group(1), mn, params if params.strip() else "void", mt.group(1), mn))
                continue
            if nm in state and not dims:
                continue
            w("static %s %s%s;   /* %s::%s */\n" % (ty, nm, dims, c, nm))
    for c in reversed(chain):
        for (ty, nm, dims) in classes[c]["members"]:
            mt = re.match(r"(\w+)\s*\*$", ty)
            if mt and mt.group(1) in classes:
                continue
            if nm in state and not dims:
                w("static %s %s = %s;   /* %s::%s, as initialised by the constructor chain */\n" % (ty, nm, state[nm], c, nm))
    o.extend(ifdecl)
    if "r" in state:
        w("#define VERIF_ARD_ROUNDS %s   /* constructor value of r */\n" % state["r"])
    arrays = [nm for c in chain for (ty, nm, dims) in classes[c]["members"] if dims or ty.startswith(("struct", "union"))]
    w("#define VERIF_ARD_HAVOC_MEMBERS() do { %s } while (0)   /* arbitrary object state for the proofs */\n"
      % " ".join("__CPROVER_havoc_object(%s%s);" % ("" if any(nm == n and d for c in chain for (t_, n, d) in classes[c]["members"]) else "&", nm) for nm in arrays))
    # file-local types and constant tables of the .cpp file, verbatim
    w("/* ---- file-scope declarations of the .cpp file (verbatim) ---- */\n")
    for d in other:
        w(d + "\n")
    # helper inline functions (free functions without class)
    w("/* ---- free helper functions ---- */\n")
    helpers = []
    for f in funcs:
        if f["cls"] is None:
            helpers.append(f)
    w("@@HELPERS@@")
    # method name map: which class defines each method (most derived wins for unqualified calls)
    defined = {}
    for c in reversed(chain):
        for f in funcs:
            if f["cls"] == c and f["name"] not in (c, "~" + c):
                defined[f["name"]] = c
    defaults = {}
    for c in chain:
        for (mn, (ret, params)) in classes[c]["methods"].items():
            ps = split_args(params)
            dv = [p.split("=", 1)[1].strip() if "=" in p else None for p in ps]
            if any(d is not None for d in dv):
                defaults[mn] = dv

    ifaces = {}     # member name -> class name, for members that point to another class (dynamic dispatch)
    for c in chain:
        for (ty, nm, dims) in classes[c]["members"]:
            mt = re.match(r"(\w+)\s*\*$", ty)
            if mt and mt.group(1) in classes:
                ifaces[nm] = mt.group(1)

    def fix_body(body):
        # calls through an interface pointer member: p->m(args) becomes Iface__m(args), an external
        # function (the dynamic dispatch target is not part of this class)
        for (nm, cl) in ifaces.items():
            body = re.sub(r"\b%s\s*->\s*(\w+)\s*\(" % nm, lambda m: "%s__%s(" % (cl, m.group(1)), body)
        # qualified base calls
        body = re.sub(r"\b(\w+)::(\w+)\s*\(", lambda m: "%s__%s(" % (m.group(1), m.group(2)) if m.group(1) in chain else m.group(0), body)
        # clean()
        def clean_sub(m):
            start = m.end() - 1
            end = match(body2[0], start, "(", ")")
            return None
        out, i = "", 0
        while True:
            m = re.search(r"\b(\w+)\s*\(", body[i:])
            if not m:
                out += body[i:]
                break
            name = m.group(1)
            s = i + m.start()
            p = i + m.end() - 1
            if name == "clean" or (name in defined and not body[max(0, s - 2):s].endswith("__")):
                e = match(body, p, "(", ")")
                args = split_args(body[p + 1:e])
                inner = [fix_body(a) for a in args]
                if name == "clean":
                    rep = ("VERIF_CLEAN1(%s)" % inner[0]) if len(inner) == 1 else ("VERIF_CLEAN2(%s)" % ", ".join(inner))
                else:
                    dv = defaults.get(name)
                    if dv and len(inner) < len(dv):
                        inner = inner + [d for d in dv[len(inner):]]
                    rep = "%s__%s(%s)" % (defined[name], name, ", ".join(inner))
                out += body[i:s] + rep
                i = e + 1
            else:
                out += body[i:i + m.end()]
                i = i + m.end()
        return out

    w("/* ---- methods (bodies verbatim; member calls resolved statically) ---- */\n")
    protos, defs = [], []
    for c in reversed(chain):
        for f in funcs:
            if f["cls"] != c or f["name"] in (c, "~" + c):
                continue
            ret = f["ret"] or "void"
            sig = "static %s %s__%s(%s)" % (ret, c, f["name"], f["params"] if f["params"].strip() else "void")
            protos.append(sig + ";\n")
            defs.append("%s\n%s\n" % (sig, fix_body(f["body"])))
    o += protos
    o += defs
    htext = "".join("static inline %s %s(%s)\n%s\n" % (f["ret"], f["name"], f["params"], fix_body(f["body"])) for f in helpers)
    return "".join(o).replace("@@HELPERS@@", htext)


def main():
    if len(sys.argv) < 5:
        print("usage: arduino_extract.py <File.cpp> <incdir> <LeafClass> <out.c> [library classes...]", file=sys.stderr)
        return 2
    cpp, incdir, leaf, out = sys.argv[1:5]
    lib = set(sys.argv[5:])
    try:
        open(out, "w").write(emit(cpp, incdir, leaf, lib or {leaf}))
    except Break as e:
        print("EXTRACTION-BREAK: %s" % e, file=sys.stderr)
        return 3
    return 0


if __name__ == "__main__":
    sys.exit(main())
