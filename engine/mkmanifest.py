#!/usr/bin/env python3
"""Regenerate MANIFEST.json from engine/props.py (claimed properties) - keeps it valid at all times."""
import json, os, sys
HERE = os.path.dirname(os.path.dirname(os.path.abspath(__file__)))
sys.path.insert(0, os.path.join(HERE, "engine"))
import props
checks = []
na = []
for pid in sorted(props.PROPS):
    p = props.PROPS[pid]
    if p.get("claimed"):
        checks.append({
            "property_id": pid,
            "quick_cmd": "python3 checks/check.py %s --tier quick" % pid,
            "thorough_cmd": "python3 checks/check.py %s --tier thorough" % pid,
            "evidence_file": "/verif/evidence/%s.json" % pid,
            "replay_cmd_template": "cat {path}",
            "engine": "cbmc-contracts",
            "level_claimed": {"category": p.get("category", "proof"), "text": p["text"], "design_ref": "DESIGN.md section 5 (%s: plan), 11 and 14 (as built: 14.1 status, 14.4 C08, 14.5 C20, 14.6 C19, 14.8 verdict rules), 12 (defects)" % pid},
            "level_note": "; ".join(p.get("assumptions", [])) + "; trusted: CBMC 6.11 (goto-cc, goto-instrument --dfcc, CaDiCaL), spec/gen_spec.py transcription of the papers (validated on the 10 published vectors), C semantics as modelled by CBMC (compiler output not verified)",
            "technique": p.get("technique", "CBMC code contracts (dfcc)"),
        })
    else:
        na.append({"property_id": pid, "reason": p.get("reason", "not claimed")})
man = {
    "version": 1,
    "setup_cmd": "bash engine/setup.sh",
    "hooks": {"guard": "SKINNY_C_VERIF", "enable": "jobs verify the code as shipped (guard off); only the C12 configuration jobs and the native replayer's back-end pinning compile scratch copies with -DSKINNY_C_VERIF -DSKINNY_VERIF_<switch>=<0|1>",
              "baseline_off_cmd": "cd /repo && make >/dev/null && make check", "source_commits": ["5aefbd2", "7b7693c"], "add_only": True},
    "engines": [{"name": "cbmc-contracts", "path": "engine/vrun.py", "serves_properties": [c["property_id"] for c in checks],
                 "kind_free_text": "mechanical instrumentation of the real sources (engine/instrument.py) + contracts/*.h + goto-instrument --dfcc + cbmc; native replay (replay/)"}],
    "checks": checks,
    "not_applicable": na,
    "notes": "exit 0 = all obligations discharged; exit 1 + VIOLATION line = a named obligation failed; exit 2 + UNDECIDED line = timeout/tool limit/extraction break (never reported as violation)",
}
json.dump(man, open(os.path.join(HERE, "MANIFEST.json"), "w"), indent=1)
print("MANIFEST: %d checks, %d not_applicable" % (len(checks), len(na)))
