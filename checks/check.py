#!/usr/bin/env python3
"""check.py <property-id> [--tier quick|thorough] [--job <id>...]
Runs the contract jobs of one property against /repo's current working tree."""
import os
import sys

HERE = os.path.dirname(os.path.dirname(os.path.abspath(__file__)))
sys.path.insert(0, os.path.join(HERE, "engine"))
import vrun  # noqa: E402
import jobs  # noqa: E402
import replay  # noqa: E402
import props  # noqa: E402


def main():
    args = sys.argv[1:]
    if not args:
        print(__doc__)
        return 2
    prop = args[0]
    tier = os.environ.get("VERIF_TIER", "quick")
    only = []
    i = 1
    while i < len(args):
        if args[i] == "--tier":
            tier = args[i + 1]
            i += 2
        elif args[i] == "--job":
            only.append(args[i + 1])
            i += 2
        else:
            i += 1
    if tier not in ("quick", "thorough"):
        tier = "quick"
    js = jobs.JOBS
    if only:
        js = [j for j in js if j.id in only]
        for j in js:
            if prop not in j.props:
                j.props.append(prop)
    if prop == "ALL":   # maintenance run over every job (not a registered check)
        for j in js:
            j.props.append("ALL")
    info = props.PROPS.get(prop, {})
    static = []
    for fn in info.get("static", []):
        static.append(fn())
    return vrun.run_check(prop, js, tier, replay_fn=replay.replay, extra_assumptions=info.get("assumptions", []),
                          level_text=info.get("text", ""), static_results=static)


if __name__ == "__main__":
    sys.exit(main())
