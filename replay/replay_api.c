/* Native replayer: differential tests of the REAL library (built from /repo's
 * working tree, ASan+UBSan) against spec_ref.c, organised by the family of the
 * failed obligation.  Usage: replay_api <family> <seed> [hint bytes in hex]
 * Prints "REPLAY-FAIL: ..." with the failing input and exits 1, or
 * "REPLAY-PASS: n cases" and exits 0.
 * The generators are deliberately structured (zero words, all-ones carries,
 * every length, every split) because the seeded defects the verifier finds are
 * typically value-specific; a hint from the verifier's counterexample is tried
 * first. */
#include <stdio.h>
#include <stdlib.h>
#include <string.h>
#include <stdint.h>
#include "skinny128-cipher.h"
#include "skinny64-cipher.h"
#include "mantis-cipher.h"
#include "skinny128-parallel.h"
#include "skinny64-parallel.h"
#include "mantis-parallel.h"
#include "spec_ref.h"

static uint64_t rng_s;
static uint32_t rnd(void)
{
    rng_s ^= rng_s << 13; rng_s ^= rng_s >> 7; rng_s ^= rng_s << 17;
    return (uint32_t)(rng_s >> 16);
}
static void rnd_fill(uint8_t *p, unsigned n) { while (n--) *p++ = (uint8_t)rnd(); }
static long cases = 0;
static void tools_dir_set(const char *d);
extern int skinny_verif_backend_cap;   /* guarded hook in src/skinny-internal.c */
static int replay_backend = -1;

static void hex(const char *name, const uint8_t *p, unsigned n)
{
    unsigned i;
    printf(" %s=", name);
    for (i = 0; i < n; ++i) printf("%02x", p[i]);
}
static void fail_exit(void)
{
    printf(" [back end cap %d: %s]\n", replay_backend, replay_backend < 0 ? "widest the host offers" : replay_backend == 1 ? "128-bit SIMD" : "generic");
    fflush(stdout); exit(1);
}

/* structured byte patterns: kind 0 random, 1 zero, 2 0xff, 3 random with zero 4-byte words chosen by mask */
static void pattern(uint8_t *p, unsigned n, unsigned kind, unsigned mask)
{
    unsigned i;
    rnd_fill(p, n);
    if (kind == 1) memset(p, 0, n);
    else if (kind == 2) memset(p, 0xff, n);
    else if (kind == 3) for (i = 0; i < n; ++i) if ((mask >> (i / 4)) & 1) p[i] = 0;
    else if (kind == 4) for (i = 0; i < n; ++i) if ((mask >> (i / 2)) & 1) p[i] = 0;
}

/* ---------------- SKINNY-128 ---------------- */
static void one_skinny128(const uint8_t *key0, unsigned len, const uint8_t *blk)
{
    Skinny128Key_t ks;
    uint8_t o[16], r[16], d[16];
    int rc;
    /* the key lives in a heap block of EXACTLY len bytes: ASan flags any read beyond the announced extent */
    uint8_t *key = (uint8_t *)malloc(len);
    memcpy(key, key0, len);
    memset(&ks, 0xA5, sizeof(ks));
    rc = skinny128_set_key(&ks, key, len);
    ++cases;
    if (rc != 1) { printf("REPLAY-FAIL: skinny128_set_key returned %d for len=%u", rc, len); fail_exit(); }
    skinny128_ecb_encrypt(o, blk, &ks);
    ref_skinny128_key_crypt(r, blk, key, len, 0);
    if (memcmp(o, r, 16)) {
        printf("REPLAY-FAIL: skinny128 encrypt != spec (key zero-padded to next primary size): len=%u", len);
        hex("key", key, len); hex("block", blk, 16); hex("got", o, 16); hex("want", r, 16); fail_exit();
    }
    skinny128_ecb_decrypt(d, blk, &ks);
    ref_skinny128_key_crypt(r, blk, key, len, 1);
    if (memcmp(d, r, 16)) {
        printf("REPLAY-FAIL: skinny128 decrypt != spec inverse: len=%u", len);
        hex("key", key, len); hex("block", blk, 16); hex("got", d, 16); hex("want", r, 16); fail_exit();
    }
    free(key);
}

static void one_round128(void)
{
    /* the verifier's inductive step on the real entry point: rounds = 1 */
    Skinny128Key_t ks;
    uint8_t in[16], o[16], g[16], rk[8];
    rnd_fill(in, 16); rnd_fill(rk, 8);
    memset(&ks, 0, sizeof(ks));
    ks.rounds = 1;
    ks.schedule[0].row[0] = rk[0] | (rk[1] << 8) | (rk[2] << 16) | ((uint32_t)rk[3] << 24);
    ks.schedule[0].row[1] = rk[4] | (rk[5] << 8) | (rk[6] << 16) | ((uint32_t)rk[7] << 24);
    skinny128_ecb_encrypt(o, in, &ks);
    memcpy(g, in, 16);
    ref_round128(g, rk, 0);
    ++cases;
    if (memcmp(o, g, 16)) {
        printf("REPLAY-FAIL: one SKINNY-128 round (rounds=1 schedule) != spec round:");
        hex("state", in, 16); hex("rk", rk, 8); hex("got", o, 16); hex("want", g, 16); fail_exit();
    }
    skinny128_ecb_decrypt(o, in, &ks);
    memcpy(g, in, 16);
    ref_round128(g, rk, 1);
    if (memcmp(o, g, 16)) {
        printf("REPLAY-FAIL: one inverse SKINNY-128 round (rounds=1 schedule) != spec inverse round:");
        hex("state", in, 16); hex("rk", rk, 8); hex("got", o, 16); hex("want", g, 16); fail_exit();
    }
}

static void fam_skinny128(int all_lengths)
{
    uint8_t key[48], blk[16];
    unsigned len, kind, mask, i;
    for (i = 0; i < 2000; ++i) one_round128();
    for (len = 16; len <= 48; len += all_lengths ? 1 : 16) {
        for (kind = 0; kind < 3; ++kind) {
            pattern(key, 48, kind, 0); rnd_fill(blk, 16);
            one_skinny128(key, len, blk);
        }
        for (mask = 0; mask < 4096; mask += (all_lengths ? 37 : 1)) {
            pattern(key, 48, 3, mask); rnd_fill(blk, 16);
            one_skinny128(key, len, blk);
        }
        for (i = 0; i < 200; ++i) {
            pattern(key, 48, 0, 0); rnd_fill(blk, 16);
            one_skinny128(key, len, blk);
        }
    }
}

/* ---------------- SKINNY-64 ---------------- */
static void one_skinny64(const uint8_t *key, unsigned len, const uint8_t *blk)
{
    Skinny64Key_t ks;
    uint8_t o[8], r[8], d[8];
    int rc;
    memset(&ks, 0xA5, sizeof(ks));
    rc = skinny64_set_key(&ks, key, len);
    ++cases;
    if (rc != 1) { printf("REPLAY-FAIL: skinny64_set_key returned %d for len=%u", rc, len); fail_exit(); }
    skinny64_ecb_encrypt(o, blk, &ks);
    ref_skinny64_key_crypt(r, blk, key, len, 0);
    if (memcmp(o, r, 8)) {
        printf("REPLAY-FAIL: skinny64 encrypt != spec (key zero-padded to next primary size): len=%u", len);
        hex("key", key, len); hex("block", blk, 8); hex("got", o, 8); hex("want", r, 8); fail_exit();
    }
    skinny64_ecb_decrypt(d, blk, &ks);
    ref_skinny64_key_crypt(r, blk, key, len, 1);
    if (memcmp(d, r, 8)) {
        printf("REPLAY-FAIL: skinny64 decrypt != spec inverse: len=%u", len);
        hex("key", key, len); hex("block", blk, 8); hex("got", d, 8); hex("want", r, 8); fail_exit();
    }
}

static void one_round64(void)
{
    Skinny64Key_t ks;
    uint8_t in[8], o[8], r[8], rk[4];
    rnd_fill(in, 8); rnd_fill(rk, 4);
    memset(&ks, 0, sizeof(ks));
    ks.rounds = 1;
    ks.schedule[0].row[0] = (uint16_t)(rk[0] | (rk[1] << 8));
    ks.schedule[0].row[1] = (uint16_t)(rk[2] | (rk[3] << 8));
    skinny64_ecb_encrypt(o, in, &ks);
    ref_round64(r, in, rk, 0);
    ++cases;
    if (memcmp(o, r, 8)) {
        printf("REPLAY-FAIL: one SKINNY-64 round (rounds=1 schedule) != spec round:");
        hex("state", in, 8); hex("rk", rk, 4); hex("got", o, 8); hex("want", r, 8); fail_exit();
    }
    skinny64_ecb_decrypt(o, in, &ks);
    ref_round64(r, in, rk, 1);
    if (memcmp(o, r, 8)) {
        printf("REPLAY-FAIL: one inverse SKINNY-64 round (rounds=1 schedule) != spec inverse round:");
        hex("state", in, 8); hex("rk", rk, 4); hex("got", o, 8); hex("want", r, 8); fail_exit();
    }
}

static void fam_skinny64(int all_lengths)
{
    uint8_t key[24], blk[8];
    unsigned len, kind, mask, i;
    for (i = 0; i < 2000; ++i) one_round64();
    for (len = 8; len <= 24; len += all_lengths ? 1 : 8) {
        for (kind = 0; kind < 3; ++kind) {
            pattern(key, 24, kind, 0); rnd_fill(blk, 8);
            one_skinny64(key, len, blk);
        }
        for (mask = 0; mask < 4096; mask += (all_lengths ? 37 : 1)) {
            pattern(key, 24, 4, mask); rnd_fill(blk, 8);
            one_skinny64(key, len, blk);
        }
        for (mask = 0; mask < 64; ++mask) {
            pattern(key, 24, 3, mask); rnd_fill(blk, 8);
            one_skinny64(key, len, blk);
        }
        for (i = 0; i < 200; ++i) {
            pattern(key, 24, 0, 0); rnd_fill(blk, 8);
            one_skinny64(key, len, blk);
        }
    }
}

#include "replay_more.inc"
static void tools_dir_set(const char *d) { tools_dir = d; }

int main(int argc, char **argv)
{
    const char *fam = argc > 1 ? argv[1] : "";
    static char dirbuf[512];
    {   /* directory of this executable: the example tools are built next to it */
        const char *sl = strrchr(argv[0], '/');
        if (sl && (size_t)(sl - argv[0]) < sizeof(dirbuf)) { memcpy(dirbuf, argv[0], (size_t)(sl - argv[0])); tools_dir_set(dirbuf); }
    }
    rng_s = 0x9E3779B97F4A7C15ULL ^ (argc > 2 ? strtoull(argv[2], 0, 0) * 0x2545F4914F6CDD1DULL : 0);
    if (!rng_s) rng_s = 1;
    if (!strcmp(fam, "skinny128")) fam_skinny128(0);
    else if (!strcmp(fam, "skinny128_keylen")) fam_skinny128(1);
    else if (!strcmp(fam, "skinny64")) fam_skinny64(0);
    else if (!strcmp(fam, "skinny64_keylen")) fam_skinny64(1);
    else {
        /* families that go through objects with a back end are run once per back end the host offers, pinned
           through the guarded hook skinny_verif_backend_cap (library built with -DSKINNY_C_VERIF) */
        static const int caps[3] = {-1, 1, 0};
        int k, known = 1;
        int per_backend = !strncmp(fam, "ctr", 3) || !strncmp(fam, "par", 3) || !strcmp(fam, "erase") || strstr(fam, "_life") != 0;
        for (k = 0; k < (per_backend ? 3 : 1) && known; ++k) {
            skinny_verif_backend_cap = caps[k];
            replay_backend = caps[k];
            known = more_families(fam);
        }
        skinny_verif_backend_cap = -1;
        if (!known) { printf("REPLAY-ERROR: unknown family %s\n", fam); return 2; }
    }
    printf("REPLAY-PASS: %ld cases, family %s\n", cases, fam);
    return 0;
}
