// Native differential replay for property C19: the Arduino classes (compiled for the host from
// /repo's working tree, portable branch) against the C library built from the same tree.
//   replay_arduino <family> <seed>      family: ard128 | ard64 | ardm | ardctr
// Prints REPLAY-FAIL with the failing call sequence on the first difference; exit 1.
#include <stdio.h>
#include <stdlib.h>
#include <string.h>
#include <stdint.h>
#include "Skinny128.h"
#include "Skinny64.h"
#include "Mantis8.h"
#include "CTR.h"
extern "C" {
extern int skinny_verif_backend_cap;   /* guarded hook in src/skinny-internal.c (library built with -DSKINNY_C_VERIF) */
#include "skinny128-cipher.h"
#include "skinny64-cipher.h"
#include "mantis-cipher.h"
}

static uint64_t rs;
static uint32_t rnd() { rs ^= rs << 13; rs ^= rs >> 7; rs ^= rs << 17; return (uint32_t)(rs >> 11); }
static void fill(uint8_t *p, size_t n) { for (size_t i = 0; i < n; ++i) p[i] = (uint8_t)rnd(); }
static void hex(const char *name, const uint8_t *p, size_t n) { printf("  %s=", name); for (size_t i = 0; i < n; ++i) printf("%02x", p[i]); printf("\n"); }
static char trail[4096];
static void note(const char *s) { if (strlen(trail) + strlen(s) + 2 < sizeof(trail)) { strcat(trail, s); strcat(trail, " "); } }
static int fail(const char *what) { printf("REPLAY-FAIL %s\n  call sequence: %s\n", what, trail); return 1; }

template <class A, bool TW, int B>
static int block_family(const char *name, size_t klen, unsigned seed)
{
    for (int iter = 0; iter < 200; ++iter) {
        A a; trail[0] = 0; note(name);
        uint8_t key[48], tw[16], in[16], oa[16], oc[16];
        fill(key, sizeof(key)); fill(in, B);
        // wrong lengths are refused
        if (a.setKey(key, klen + 1) || a.setKey(key, klen - 1)) return fail("setKey accepted a wrong length");
        if (!a.setKey(key, klen)) return fail("setKey refused the class key length");
        note("setKey");
        Skinny128Key_t k128; Skinny128TweakedKey_t t128; Skinny64Key_t k64; Skinny64TweakedKey_t t64;
        if (B == 16) { if (TW) skinny128_set_tweaked_key(&t128, key, klen); else skinny128_set_key(&k128, key, klen); }
        else { if (TW) skinny64_set_tweaked_key(&t64, key, klen); else skinny64_set_key(&k64, key, klen); }
        for (int step = 0; step < 6; ++step) {
            if (TW && step > 0) {
                int mode = rnd() % 3;
                if (mode == 0) { note("setTweak(NULL)");
                    if (B == 16) { ((Skinny128_Tweaked *)(void *)&a)->setTweak(0, 16); skinny128_set_tweak(&t128, 0, 16); }
                    else { ((Skinny64_Tweaked *)(void *)&a)->setTweak(0, 8); skinny64_set_tweak(&t64, 0, 8); } }
                else { fill(tw, B); note("setTweak(random)");
                    if (B == 16) { ((Skinny128_Tweaked *)(void *)&a)->setTweak(tw, 16); skinny128_set_tweak(&t128, tw, 16); }
                    else { ((Skinny64_Tweaked *)(void *)&a)->setTweak(tw, 8); skinny64_set_tweak(&t64, tw, 8); } }
            }
            fill(in, B);
            a.encryptBlock(oa, in);
            if (B == 16) skinny128_ecb_encrypt(oc, in, TW ? &t128.ks : &k128); else skinny64_ecb_encrypt(oc, in, TW ? &t64.ks : &k64);
            if (memcmp(oa, oc, B)) { hex("key", key, klen); hex("block", in, B); hex("arduino", oa, B); hex("library", oc, B); return fail("encryptBlock differs from the C library"); }
            a.decryptBlock(oa, in);
            if (B == 16) skinny128_ecb_decrypt(oc, in, TW ? &t128.ks : &k128); else skinny64_ecb_decrypt(oc, in, TW ? &t64.ks : &k64);
            if (memcmp(oa, oc, B)) { hex("key", key, klen); hex("block", in, B); hex("arduino", oa, B); hex("library", oc, B); return fail("decryptBlock differs from the C library"); }
        }
    }
    (void)seed;
    return 0;
}

static int mantis_family()
{
    for (int iter = 0; iter < 300; ++iter) {
        Mantis8 a; MantisKey_t k; trail[0] = 0; note("Mantis8");
        uint8_t key[16], tw[8], in[8], oa[8], oc[8];
        fill(key, 16);
        if (a.setKey(key, 15) || a.setKey(key, 17)) return fail("setKey accepted a wrong length");
        if (!a.setKey(key, 16)) return fail("setKey refused 16 bytes");
        mantis_set_key(&k, key, 16, 8, MANTIS_ENCRYPT); note("setKey");
        for (int step = 0; step < 8; ++step) {
            int m = rnd() % 4;
            if (m == 0) { a.swapModes(); mantis_swap_modes(&k); note("swapModes"); }
            else if (m == 1) { fill(tw, 8); a.setTweak(tw, 8); mantis_set_tweak(&k, tw, 8); note("setTweak(random)"); }
            else if (m == 2) { a.setTweak(0, 8); mantis_set_tweak(&k, 0, 8); note("setTweak(NULL)"); }
            fill(in, 8);
            a.encryptBlock(oa, in); mantis_ecb_crypt(oc, in, &k);
            if (memcmp(oa, oc, 8)) { hex("key", key, 16); hex("block", in, 8); hex("arduino", oa, 8); hex("library", oc, 8); return fail("Mantis8 block differs from the C library"); }
            a.decryptBlock(oa, in);
            if (memcmp(oa, oc, 8)) return fail("Mantis8 decryptBlock differs from the same core");
        }
    }
    return 0;
}

template <class A>
static int ctr_family(const char *name, size_t klen)
{
    for (int iter = 0; iter < 200; ++iter) {
        CTR<A> a; Skinny128CTR_t c; trail[0] = 0; note(name);
        if (!skinny128_ctr_init(&c)) return 0;
        uint8_t key[48], iv[16], in[200], oa[200], oc[200];
        fill(key, klen); fill(iv, 16);
        if (iter & 1) memset(iv, 0xFF, 16 - (rnd() % 4));     // carries through the counter
        if (!a.setKey(key, klen)) return fail("CTR setKey refused");
        skinny128_ctr_set_key(&c, key, klen);
        a.setIV(iv, 16); skinny128_ctr_set_counter(&c, iv, 16); note("setKey setIV");
        for (int step = 0; step < 8; ++step) {
            int m = rnd() % 6;
            if (m == 0) { fill(key, klen); a.setKey(key, klen); skinny128_ctr_set_key(&c, key, klen); note("setKey(mid-stream)"); }
            if (m == 1) { fill(iv, 16); a.setIV(iv, 16); skinny128_ctr_set_counter(&c, iv, 16); note("setIV"); }
            size_t n = rnd() % 70; char b[32]; snprintf(b, sizeof(b), "encrypt(%u)", (unsigned)n); note(b);
            fill(in, n);
            a.encrypt(oa, in, n); skinny128_ctr_encrypt(oc, in, n, &c);
            if (memcmp(oa, oc, n)) { hex("arduino", oa, n); hex("library", oc, n); skinny128_ctr_cleanup(&c); return fail("CTR output differs from the C library"); }
        }
        skinny128_ctr_cleanup(&c);
    }
    return 0;
}

int main(int argc, char **argv)
{
    if (argc < 3) return 2;
    rs = 0x9E3779B97F4A7C15ULL ^ (uint64_t)strtoull(argv[2], 0, 10) * 0x100000001B3ULL; if (!rs) rs = 1;
    int r = 0;
    /* the reference is the library's GENERIC back end: its SIMD CTR back ends have their own open finding under C06
       (a key change in the middle of a batch), which is not a fact about the Arduino port */
    skinny_verif_backend_cap = 0;
    if (!strcmp(argv[1], "ard128")) {
        r = block_family<Skinny128_128, false, 16>("Skinny128_128", 16, 0) || block_family<Skinny128_256, false, 16>("Skinny128_256", 32, 0) ||
            block_family<Skinny128_384, false, 16>("Skinny128_384", 48, 0) || block_family<Skinny128_256_Tweaked, true, 16>("Skinny128_256_Tweaked", 16, 0) ||
            block_family<Skinny128_384_Tweaked, true, 16>("Skinny128_384_Tweaked", 32, 0);
    } else if (!strcmp(argv[1], "ard64")) {
        r = block_family<Skinny64_64, false, 8>("Skinny64_64", 8, 0) || block_family<Skinny64_128, false, 8>("Skinny64_128", 16, 0) ||
            block_family<Skinny64_192, false, 8>("Skinny64_192", 24, 0) || block_family<Skinny64_128_Tweaked, true, 8>("Skinny64_128_Tweaked", 8, 0) ||
            block_family<Skinny64_192_Tweaked, true, 8>("Skinny64_192_Tweaked", 16, 0);
    } else if (!strcmp(argv[1], "ardm")) {
        r = mantis_family();
    } else if (!strcmp(argv[1], "ardctr")) {
        r = ctr_family<Skinny128_128>("CTR<Skinny128_128>", 16) || ctr_family<Skinny128_256>("CTR<Skinny128_256>", 32) || ctr_family<Skinny128_384>("CTR<Skinny128_384>", 48);
    } else { printf("REPLAY-ERROR: unknown family %s\n", argv[1]); return 2; }
    if (!r) printf("replay_arduino %s: no difference found\n", argv[1]);
    return r;
}
