#!/bin/bash
# build.sh <repo> <outdir>: build the REAL library from <repo>'s working tree (plain copies of
# src/, no instrumentation) with ASan+UBSan, plus the spec reference, into <outdir>/replay_api
set -e
REPO="$1"; OUT="$2"; HERE="$(cd "$(dirname "$0")/.." && pwd)"
mkdir -p "$OUT/rsrc"
cp "$REPO"/src/*.c "$REPO"/src/*.h "$OUT/rsrc/"
python3 "$HERE/spec/gen_spec.py" "$OUT/spec_gen.h"
# alignment is excluded: with SKINNY_UNALIGNED the library deliberately uses word accesses at any address (x86)
SAN="${REPLAY_SAN--fsanitize=address,undefined -fno-sanitize=alignment -fno-sanitize-recover=undefined}"
objs=""
for f in "$OUT"/rsrc/*.c; do
  fl=""
  case "$f" in *vec128.c) fl="-msse2";; *vec256.c) fl="-mavx2";; *skinny-internal.c) fl="-msse2 -mavx2";; esac
  gcc -std=c99 -O1 -g $SAN $fl -DSKINNY_C_VERIF=1 ${REPLAY_DEFS} -I"$REPO/include" -c "$f" -o "${f%.c}.o"
  objs="$objs ${f%.c}.o"
done
gcc -O1 -g $SAN -I"$OUT" -I"$HERE/spec" -I"$HERE/replay" -I"$REPO/include" -I"$OUT/rsrc" \
   "$HERE/replay/replay_api.c" "$HERE/spec/spec_ref.c" $objs -Wl,--wrap=calloc -Wl,--wrap=free -o "$OUT/replay_api"
# the example tools, from the working tree, against the same library objects
for t in skinny-ctr skinny-ecb skinny-tweak; do
  gcc -O1 -g $SAN -I"$REPO/include" -I"$REPO/examples" "$REPO/examples/$t.c" "$REPO/examples/options.c" $objs -o "$OUT/$t"
done
# C19: the Arduino classes compiled for the host (portable branch) against the same library objects.
# A failure to build (e.g. a change that is not valid C++) only disables this replayer.
AR="$REPO/arduino/libraries/Skinny"
( g++ -O1 -g $SAN -I"$AR" -I"$REPO/include" "$HERE/replay/replay_arduino.cpp" "$AR"/Skinny128.cpp "$AR"/Skinny64.cpp "$AR"/Mantis8.cpp \
      "$AR"/CTR.cpp "$AR"/BlockCipher.cpp "$AR"/Cipher.cpp "$AR"/Crypto.cpp $objs -o "$OUT/replay_arduino" ) 2>"$OUT/replay_arduino.log" || true
