/* Harness TU for one Skinny-128 class of the Arduino port: the contracts, then the C translation unit
 * extracted from Skinny128.cpp on this run (VERIF_ARD_TU), then the entry points.
 * Member state is arbitrary (havocked) at every entry; s and r keep their constructor values. */
#include "contracts/arduino-skinny128.h"
#include "verif_defaults.h"
#include VERIF_ARD_TU

#define VPASTE2(a, b) a##b
#define VPASTE(a, b) VPASTE2(a, b)
#define LEAF(m) VPASTE(VERIF_ARD_LEAF, m)

void h_ctor(void)
{
    /* the constructor chain of this leaf class gives the round count of the library variant */
    __CPROVER_assert(s == sched && r == V128_ROUNDS(VERIF_ARD_KEYLEN, A128_TWEAKPTR) && sizeof(sched) == 8u * r, "C19 constructor: schedule pointer, rounds, size");
    __CPROVER_assert(LEAF(__keySize)() == VERIF_ARD_KEYLEN && Skinny128__blockSize() == 16, "C19 constructor: reported key and block size of the variant");
    VCANARY();
}
void h_encryptBlock(void) { uint8_t *o; const uint8_t *i; VERIF_ARD_HAVOC_MEMBERS(); Skinny128__encryptBlock(o, i); VCANARY(); }
void h_decryptBlock(void) { uint8_t *o; const uint8_t *i; VERIF_ARD_HAVOC_MEMBERS(); Skinny128__decryptBlock(o, i); VCANARY(); }
void h_setTK1(void) { const uint8_t *k; bool tw; VERIF_ARD_HAVOC_MEMBERS(); Skinny128__setTK1(k, tw); VCANARY(); }
void h_xorTK1(void) { const uint8_t *k; VERIF_ARD_HAVOC_MEMBERS(); Skinny128__xorTK1(k); VCANARY(); }
void h_setTK2(void) { const uint8_t *k; VERIF_ARD_HAVOC_MEMBERS(); Skinny128__setTK2(k); VCANARY(); }
void h_setTK3(void) { const uint8_t *k; VERIF_ARD_HAVOC_MEMBERS(); Skinny128__setTK3(k); VCANARY(); }
void h_clear(void) { VERIF_ARD_HAVOC_MEMBERS(); Skinny128__clear(); VCANARY(); }
void h_setKey(void) { const uint8_t *k; size_t len; VERIF_ARD_HAVOC_MEMBERS(); LEAF(__setKey)(k, len); VCANARY(); }
#ifdef VERIF_ARD_TWEAKED
void h_resetTweak(void) { VERIF_ARD_HAVOC_MEMBERS(); Skinny128_Tweaked__resetTweak(); VCANARY(); }
void h_setTweak(void) { const uint8_t *tw; size_t len; VERIF_ARD_HAVOC_MEMBERS(); Skinny128_Tweaked__setTweak(tw, len); VCANARY(); }
void h_tclear(void) { VERIF_ARD_HAVOC_MEMBERS(); Skinny128_Tweaked__clear(); VCANARY(); }
#endif
