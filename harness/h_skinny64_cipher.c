/* Harness TU for src/skinny64-cipher.c: contracts first, then the real
 * (instrumented) source, then entry points.  dfcc builds the environment of
 * an enforced function from its requires clauses. */
#include "contracts/skinny64-cipher.h"
#include "verif_defaults.h"
#include "src/skinny64-cipher.c"

void h_ecb_encrypt(void)
{
    void *output; const void *input; const Skinny64Key_t *ks;
    skinny64_ecb_encrypt(output, input, ks);
    VCANARY();
}

void h_ecb_decrypt(void)
{
    void *output; const void *input; const Skinny64Key_t *ks;
    skinny64_ecb_decrypt(output, input, ks);
    VCANARY();
}

void h_set_tk1(void)
{
    Skinny64Key_t *ks; const void *key; unsigned key_size; int tweaked;
    skinny64_set_tk1(ks, key, key_size, tweaked);
    VCANARY();
}
void h_xor_tk1(void)
{
    Skinny64Key_t *ks; const void *key;
    skinny64_xor_tk1(ks, key);
    VCANARY();
}
void h_set_tk2(void)
{
    Skinny64Key_t *ks; const void *key; unsigned key_size;
    skinny64_set_tk2(ks, key, key_size);
    VCANARY();
}
void h_set_tk3(void)
{
    Skinny64Key_t *ks; const void *key; unsigned key_size;
    skinny64_set_tk3(ks, key, key_size);
    VCANARY();
}

void h_set_key_inner(void)
{
    Skinny64Key_t *ks; const void *key; unsigned key_size; const void *tweak;
#ifdef VERIF_CASE_LEN
    key_size = VERIF_CASE_LEN;
#endif
#ifdef VERIF_CASE_TWEAK
    __CPROVER_assume(VERIF_CASE_TWEAK ? tweak != 0 : tweak == 0);
#endif
    skinny64_set_key_inner(ks, key, key_size, tweak);
    VCANARY();
}
void h_set_key(void)
{
    Skinny64Key_t *ks; const void *key; unsigned size;
    skinny64_set_key(ks, key, size);
    VCANARY();
}
void h_set_tweaked_key(void)
{
    Skinny64TweakedKey_t *ks; const void *key; unsigned key_size;
    skinny64_set_tweaked_key(ks, key, key_size);
    VCANARY();
}
void h_set_tweak(void)
{
    Skinny64TweakedKey_t *ks; const void *tweak; unsigned tweak_size;
#ifdef VERIF_CASE_LEN
    tweak_size = VERIF_CASE_LEN;
#endif
#ifdef VERIF_CASE_INVALID
    __CPROVER_assume(tweak_size == 0 || tweak_size > 8);
#endif
    skinny64_set_tweak(ks, tweak, tweak_size);
    VCANARY();
}

/* C09: any overlap / any alignment of the single-block buffers: input = buf + a, output = buf + b inside one
   15-byte object, a and b symbolic in 0..7; the real function is inlined (its loop contract applies) */
static void verif_overlap_encrypt(uint8_t *buf, unsigned a, unsigned b, const Skinny64Key_t *ks)
__CPROVER_requires(__CPROVER_is_fresh(buf, 15) && a <= 7 && b <= 7)
__CPROVER_requires(__CPROVER_is_fresh(ks, sizeof(Skinny64Key_t)) && ks->rounds <= SKINNY64_MAX_ROUNDS)
__CPROVER_assigns(__CPROVER_object_upto(buf + b, 8), __CPROVER_object_whole(VG_S), __CPROVER_object_whole(VG_RK))
__CPROVER_ensures(V64_OUT_IS_GHOST(buf + b))
{
    skinny64_ecb_encrypt(buf + b, buf + a, ks);
}
static void verif_overlap_decrypt(uint8_t *buf, unsigned a, unsigned b, const Skinny64Key_t *ks)
__CPROVER_requires(__CPROVER_is_fresh(buf, 15) && a <= 7 && b <= 7)
__CPROVER_requires(__CPROVER_is_fresh(ks, sizeof(Skinny64Key_t)) && 1 <= ks->rounds && ks->rounds <= SKINNY64_MAX_ROUNDS)
__CPROVER_assigns(__CPROVER_object_upto(buf + b, 8), __CPROVER_object_whole(VG_S), __CPROVER_object_whole(VG_RK))
__CPROVER_ensures(V64_OUT_IS_GHOST(buf + b))
{
    skinny64_ecb_decrypt(buf + b, buf + a, ks);
}
void h_overlap_encrypt(void) { uint8_t *buf; unsigned a, b; const Skinny64Key_t *ks; verif_overlap_encrypt(buf, a, b, ks); VCANARY(); }
void h_overlap_decrypt(void) { uint8_t *buf; unsigned a, b; const Skinny64Key_t *ks; verif_overlap_decrypt(buf, a, b, ks); VCANARY(); }
