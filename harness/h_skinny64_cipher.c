/* Harness TU for src/skinny64-cipher.c: contracts first, then the real
 * (instrumented) source, then entry points.  dfcc builds the environment of
 * an enforced function from its requires clauses. */
#include "contracts/skinny64-cipher.h"
#include "verif_defaults.h"
#include "src/skinny64-cipher.c"

void h_ecb_encrypt(void)
{
    void *output; const void *input; const Skinny64Key_t *ks;
    skinny64_ecb_encrypt(output, input, ks);
    VCANARY();
}

void h_ecb_decrypt(void)
{
    void *output; const void *input; const Skinny64Key_t *ks;
    skinny64_ecb_decrypt(output, input, ks);
    VCANARY();
}

void h_set_tk1(void)
{
    Skinny64Key_t *ks; const void *key; unsigned key_size; int tweaked;
    skinny64_set_tk1(ks, key, key_size, tweaked);
    VCANARY();
}
void h_xor_tk1(void)
{
    Skinny64Key_t *ks; const void *key;
    skinny64_xor_tk1(ks, key);
    VCANARY();
}
void h_set_tk2(void)
{
    Skinny64Key_t *ks; const void *key; unsigned key_size;
    skinny64_set_tk2(ks, key, key_size);
    VCANARY();
}
void h_set_tk3(void)
{
    Skinny64Key_t *ks; const void *key; unsigned key_size;
    skinny64_set_tk3(ks, key, key_size);
    VCANARY();
}

void h_set_key_inner(void)
{
    Skinny64Key_t *ks; const void *key; unsigned key_size; const void *tweak;
#ifdef VERIF_CASE_LEN
    key_size = VERIF_CASE_LEN;
#endif
#ifdef VERIF_CASE_TWEAK
    __CPROVER_assume(VERIF_CASE_TWEAK ? tweak != 0 : tweak == 0);
#endif
    skinny64_set_key_inner(ks, key, key_size, tweak);
    VCANARY();
}
void h_set_key(void)
{
    Skinny64Key_t *ks; const void *key; unsigned size;
    skinny64_set_key(ks, key, size);
    VCANARY();
}
void h_set_tweaked_key(void)
{
    Skinny64TweakedKey_t *ks; const void *key; unsigned key_size;
    skinny64_set_tweaked_key(ks, key, key_size);
    VCANARY();
}
void h_set_tweak(void)
{
    Skinny64TweakedKey_t *ks; const void *tweak; unsigned tweak_size;
#ifdef VERIF_CASE_LEN
    tweak_size = VERIF_CASE_LEN;
#endif
#ifdef VERIF_CASE_INVALID
    __CPROVER_assume(tweak_size == 0 || tweak_size > 8);
#endif
    skinny64_set_tweak(ks, tweak, tweak_size);
    VCANARY();
}
