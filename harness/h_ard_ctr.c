/* Harness TU for class CTRCommon (CTR<T>) of the Arduino port (see h_ard_skinny128.c). */
#include "contracts/arduino-ctr.h"
#include "verif_defaults.h"
#include "arduino/CTRCommon.c"

void h_ctor(void)
{
    __CPROVER_assert(posn == 16 && counterStart == 0 && CTRCommon__ivSize() == 16, "C19 constructor: keystream empty, full-width counter");
    VCANARY();
}
void h_setCounterSize(void) { size_t n; CTRCommon__setCounterSize(n); VCANARY(); }
void h_setKey(void) { const uint8_t *k; size_t len; CTRCommon__setKey(k, len); VCANARY(); }
void h_setIV(void) { const uint8_t *iv; size_t len; CTRCommon__setIV(iv, len); VCANARY(); }
void h_clear(void) { CTRCommon__clear(); VCANARY(); }
void h_encrypt(void) { uint8_t *o; const uint8_t *i; size_t len; CTRCommon__encrypt(o, i, len); VCANARY(); }
void h_decrypt(void) { uint8_t *o; const uint8_t *i; size_t len; CTRCommon__decrypt(o, i, len); VCANARY(); }
