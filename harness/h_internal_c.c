/* Harness TU for src/skinny-internal.c (CPU probes, aligned allocator) */
#include <cpuid.h>
#include "contracts/skinny-internal-c.h"
#include "verif_defaults.h"
#undef __cpuid
#undef __cpuid_count
#define __cpuid(level, a, b, c, d) verif_cpuid((level), nondet_u32(), &(a), &(b), &(c), &(d))
#define __cpuid_count(level, count, a, b, c, d) verif_cpuid((level), (count), &(a), &(b), &(c), &(d))
#include "src/skinny-internal.c"

void h_has128(void) { int r = _skinny_has_vec128(); VCANARY(); }
void h_has256(void) { int r = _skinny_has_vec256(); VCANARY(); }
void h_calloc(void) { size_t size; void **bp; void *p = skinny_calloc(size, bp); VCANARY(); }
