/* C08 harness TU for the generic CTR back ends and the parallel-ECB front ends (block functions of other
 * TUs have no body here: only the branches and indices of these files are observed; the block functions are
 * covered by h_ct.c and h_ct_vec*.c). */
#include "contracts/verif_leak.h"
#include "verif_defaults.h"
#include "skinny128-cipher.h"
#include "skinny64-cipher.h"
#include "mantis-cipher.h"
/* block functions of other TUs: empty bodies (their own control flow is covered by h_ct.c) */
void skinny128_ecb_encrypt(void *output, const void *input, const Skinny128Key_t *ks) { (void)output; (void)input; (void)ks; }
void skinny128_ecb_decrypt(void *output, const void *input, const Skinny128Key_t *ks) { (void)output; (void)input; (void)ks; }
void skinny64_ecb_encrypt(void *output, const void *input, const Skinny64Key_t *ks) { (void)output; (void)input; (void)ks; }
void skinny64_ecb_decrypt(void *output, const void *input, const Skinny64Key_t *ks) { (void)output; (void)input; (void)ks; }
void mantis_ecb_crypt(void *output, const void *input, const MantisKey_t *ks) { (void)output; (void)input; (void)ks; }
void mantis_ecb_crypt_tweaked(void *output, const void *input, const void *tweak, const MantisKey_t *ks) { (void)output; (void)input; (void)tweak; (void)ks; }
#ifndef CT_LEN
#define CT_LEN 17
#endif
#ifndef CT_OFF
#define CT_OFF 3
#endif
#include "src/skinny128-ctr.c"
#include "src/skinny64-ctr.c"
#include "src/mantis-ctr.c"
#include "src/skinny128-parallel.c"
#include "src/skinny64-parallel.c"
#include "src/mantis-parallel.c"

#define CT_CTR(NAME, CTR_T, CTX_T, B, ENC) \
void NAME(void) \
{ \
    CTR_T c1, c2; \
    VSECRET(CTX_T, x1, sizeof(CTX_T)); VSECRET(CTX_T, x2, sizeof(CTX_T)); \
    VSECRET(uint8_t, i1, 40); VSECRET(uint8_t, i2, 40); VSECRET(uint8_t, o, 40); \
    size_t n = CT_LEN; /* public call size and keystream-buffer offset: one job per representative pair (with a \
                          symbolic offset the remaining size becomes symbolic and the unwinding explodes: > 14 GB) */ \
    x1->offset = (CT_OFF <= B ? CT_OFF : B); x2->offset = x1->offset; \
    c1.ctx = x1; c2.ctx = x2; c1.vtable = 0; c2.vtable = 0; \
    VLEAK_BEGIN(); ENC(o, i1, n, &c1); VLEAK_SECOND(); ENC(o, i2, n, &c2); VLEAK_END(1); \
}
CT_CTR(h_ct_ctr128, Skinny128CTR_t, Skinny128CTRCtx_t, 16, skinny128_ctr_def_encrypt)
CT_CTR(h_ct_ctr64, Skinny64CTR_t, Skinny64CTRCtx_t, 8, skinny64_ctr_def_encrypt)
CT_CTR(h_ct_ctrm, MantisCTR_t, MantisCTRCtx_t, 8, mantis_ctr_def_encrypt)

/* set_counter: public = length and NULL-ness; secret = counter bytes, previous context */
#define CT_SETCTR(NAME, CTR_T, CTX_T, B, FN) \
void NAME(void) \
{ \
    CTR_T c1, c2; \
    VSECRET(CTX_T, x1, sizeof(CTX_T)); VSECRET(CTX_T, x2, sizeof(CTX_T)); \
    VSECRET(uint8_t, a, B); VSECRET(uint8_t, b, B); \
    unsigned n = CT_LEN; int isnull; /* public length: one job per representative (R8: symbolic memset/memcpy lengths blow up) */ \
    c1.ctx = x1; c2.ctx = x2; c1.vtable = 0; c2.vtable = 0; \
    VLEAK_BEGIN(); FN(&c1, isnull ? (void *)0 : a, n); VLEAK_SECOND(); FN(&c2, isnull ? (void *)0 : b, n); VLEAK_END(1); \
}
CT_SETCTR(h_ct_setctr128, Skinny128CTR_t, Skinny128CTRCtx_t, 16, skinny128_ctr_def_set_counter)
CT_SETCTR(h_ct_setctr64, Skinny64CTR_t, Skinny64CTRCtx_t, 8, skinny64_ctr_def_set_counter)
CT_SETCTR(h_ct_setctrm, MantisCTR_t, MantisCTRCtx_t, 8, mantis_ctr_def_set_counter)

/* parallel dispatchers without a vector back end (vtable NULL): public = size; secret = data, schedule */
void h_ct_par128(void)
{
    Skinny128ParallelECB_t p1, p2;
    VSECRET(Skinny128Key_t, k1, sizeof(Skinny128Key_t)); VSECRET(Skinny128Key_t, k2, sizeof(Skinny128Key_t));
    VSECRET(uint8_t, i1, 48); VSECRET(uint8_t, i2, 48); VSECRET(uint8_t, o, 48);
    size_t n; int dec;
    __CPROVER_assume(n <= 48);
    p1.ctx = k1; p2.ctx = k2; p1.vtable = 0; p2.vtable = 0; p1.parallel_size = 64; p2.parallel_size = 64;
    VLEAK_BEGIN();
    if (dec) skinny128_parallel_ecb_decrypt(o, i1, n, &p1); else skinny128_parallel_ecb_encrypt(o, i1, n, &p1);
    VLEAK_SECOND();
    if (dec) skinny128_parallel_ecb_decrypt(o, i2, n, &p2); else skinny128_parallel_ecb_encrypt(o, i2, n, &p2);
    VLEAK_END(1);
}
void h_ct_parm(void)
{
    MantisParallelECB_t p1, p2;
    VSECRET(MantisKey_t, k1, sizeof(MantisKey_t)); VSECRET(MantisKey_t, k2, sizeof(MantisKey_t));
    VSECRET(uint8_t, i1, 24); VSECRET(uint8_t, i2, 24); VSECRET(uint8_t, t1, 24); VSECRET(uint8_t, t2, 24); VSECRET(uint8_t, o, 24);
    size_t n;
    __CPROVER_assume(n <= 24);
    p1.ctx = k1; p2.ctx = k2; p1.vtable = 0; p2.vtable = 0; p1.parallel_size = 64; p2.parallel_size = 64;
    VLEAK_BEGIN(); mantis_parallel_ecb_crypt(o, i1, t1, n, &p1); VLEAK_SECOND(); mantis_parallel_ecb_crypt(o, i2, t2, n, &p2); VLEAK_END(1);
}
