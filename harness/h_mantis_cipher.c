/* Harness TU for src/mantis-cipher.c */
#include "contracts/mantis-cipher.h"
#include "verif_defaults.h"
#include "src/mantis-cipher.c"

void h_ecb_crypt(void)
{
    void *output; const void *input; const MantisKey_t *ks;
    mantis_ecb_crypt(output, input, ks);
    VCANARY();
}
void h_ecb_crypt_tweaked(void)
{
    void *output; const void *input; const void *tweak; const MantisKey_t *ks;
    mantis_ecb_crypt_tweaked(output, input, tweak, ks);
    VCANARY();
}
void h_set_key(void)
{
    MantisKey_t *ks; const void *key; unsigned size, rounds; int mode;
#ifdef VERIF_CASE_LEN
    size = VERIF_CASE_LEN;
#endif
#ifdef VERIF_CASE_INVALID
    __CPROVER_assume(size != 16);
#endif
    mantis_set_key(ks, key, size, rounds, mode);
    VCANARY();
}
void h_set_tweak(void)
{
    MantisKey_t *ks; const void *tweak; unsigned size;
    mantis_set_tweak(ks, tweak, size);
    VCANARY();
}
void h_swap_modes(void)
{
    MantisKey_t *ks;
    mantis_swap_modes(ks);
    VCANARY();
}
