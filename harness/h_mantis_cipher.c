/* Harness TU for src/mantis-cipher.c */
#include "contracts/mantis-cipher.h"
#include "verif_defaults.h"
#include "src/mantis-cipher.c"

void h_ecb_crypt(void)
{
    void *output; const void *input; const MantisKey_t *ks;
    mantis_ecb_crypt(output, input, ks);
    VCANARY();
}
void h_ecb_crypt_tweaked(void)
{
    void *output; const void *input; const void *tweak; const MantisKey_t *ks;
    mantis_ecb_crypt_tweaked(output, input, tweak, ks);
    VCANARY();
}
void h_set_key(void)
{
    MantisKey_t *ks; const void *key; unsigned size, rounds; int mode;
#ifdef VERIF_CASE_LEN
    size = VERIF_CASE_LEN;
#endif
#ifdef VERIF_CASE_INVALID
    __CPROVER_assume(size != 16);
#endif
    mantis_set_key(ks, key, size, rounds, mode);
    VCANARY();
}
void h_set_tweak(void)
{
    MantisKey_t *ks; const void *tweak; unsigned size;
    mantis_set_tweak(ks, tweak, size);
    VCANARY();
}
void h_swap_modes(void)
{
    MantisKey_t *ks;
    mantis_swap_modes(ks);
    VCANARY();
}

/* C09: any overlap / alignment for the single-block Mantis functions */
static void verif_overlap_crypt(uint8_t *buf, unsigned a, unsigned b, const MantisKey_t *ks)
__CPROVER_requires(__CPROVER_is_fresh(buf, 15) && a <= 7 && b <= 7)
__CPROVER_requires(__CPROVER_is_fresh(ks, sizeof(MantisKey_t)) && ks->rounds <= MANTIS_MAX_ROUNDS)
__CPROVER_assigns(__CPROVER_object_upto(buf + b, 8), VM_GHOSTS)
__CPROVER_ensures(VM_OUT_IS_GHOST(buf + b, VG_S))
{
    mantis_ecb_crypt(buf + b, buf + a, ks);
}
static void verif_overlap_crypt_tweaked(uint8_t *buf, unsigned a, unsigned b, const void *tweak, const MantisKey_t *ks)
__CPROVER_requires(__CPROVER_is_fresh(buf, 15) && a <= 7 && b <= 7 && __CPROVER_is_fresh(tweak, 8))
__CPROVER_requires(__CPROVER_is_fresh(ks, sizeof(MantisKey_t)) && ks->rounds <= MANTIS_MAX_ROUNDS)
__CPROVER_assigns(__CPROVER_object_upto(buf + b, 8), VM_GHOSTS)
__CPROVER_ensures(VM_OUT_IS_GHOST(buf + b, VG_S))
{
    mantis_ecb_crypt_tweaked(buf + b, buf + a, tweak, ks);
}
void h_overlap_crypt(void) { uint8_t *buf; unsigned a, b; const MantisKey_t *ks; verif_overlap_crypt(buf, a, b, ks); VCANARY(); }
void h_overlap_crypt_tweaked(void) { uint8_t *buf; unsigned a, b; const void *t; const MantisKey_t *ks; verif_overlap_crypt_tweaked(buf, a, b, t, ks); VCANARY(); }
