/* C08 harness TU for the 128-bit vector block functions (parallel ECB, Skinny-128 / Skinny-64 / Mantis) */
#include "contracts/verif_leak.h"
#include "verif_defaults.h"
#if defined(CT_VEC_S128)
#include "src/skinny128-parallel-vec128.c"
void h_ct_vec(void)
{
    VSECRET(Skinny128Key_t, k1, sizeof(Skinny128Key_t)); VSECRET(Skinny128Key_t, k2, sizeof(Skinny128Key_t));
    VSECRET(uint8_t, i1, 64); VSECRET(uint8_t, i2, 64); VSECRET(uint8_t, o, 64);
    int dec;
    __CPROVER_assume(1 <= k1->rounds && k1->rounds <= SKINNY128_MAX_ROUNDS && k2->rounds == k1->rounds);
    VLEAK_BEGIN();
    if (dec) _skinny128_parallel_decrypt_vec128(o, i1, k1); else _skinny128_parallel_encrypt_vec128(o, i1, k1);
    VLEAK_SECOND();
    if (dec) _skinny128_parallel_decrypt_vec128(o, i2, k2); else _skinny128_parallel_encrypt_vec128(o, i2, k2);
    VLEAK_END(1);
}
#elif defined(CT_VEC_S64)
#include "src/skinny64-parallel-vec128.c"
void h_ct_vec(void)
{
    VSECRET(Skinny64Key_t, k1, sizeof(Skinny64Key_t)); VSECRET(Skinny64Key_t, k2, sizeof(Skinny64Key_t));
    VSECRET(uint8_t, i1, 64); VSECRET(uint8_t, i2, 64); VSECRET(uint8_t, o, 64);
    int dec;
    __CPROVER_assume(1 <= k1->rounds && k1->rounds <= SKINNY64_MAX_ROUNDS && k2->rounds == k1->rounds);
    VLEAK_BEGIN();
    if (dec) _skinny64_parallel_decrypt_vec128(o, i1, k1); else _skinny64_parallel_encrypt_vec128(o, i1, k1);
    VLEAK_SECOND();
    if (dec) _skinny64_parallel_decrypt_vec128(o, i2, k2); else _skinny64_parallel_encrypt_vec128(o, i2, k2);
    VLEAK_END(1);
}
#else
#include "src/mantis-parallel-vec128.c"
void h_ct_vec(void)
{
    VSECRET(MantisKey_t, k1, sizeof(MantisKey_t)); VSECRET(MantisKey_t, k2, sizeof(MantisKey_t));
    VSECRET(uint8_t, i1, 64); VSECRET(uint8_t, i2, 64); VSECRET(uint8_t, t1, 64); VSECRET(uint8_t, t2, 64); VSECRET(uint8_t, o, 64);
    __CPROVER_assume(k1->rounds <= MANTIS_MAX_ROUNDS && k2->rounds == k1->rounds);
    VLEAK_BEGIN(); _mantis_parallel_crypt_vec128(o, i1, t1, k1); VLEAK_SECOND(); _mantis_parallel_crypt_vec128(o, i2, t2, k2); VLEAK_END(1);
}
#endif
