/* Loop-free lemmas over the generated specification (plain CBMC, fully symbolic cells):
 * inversion facts used by C03's meta-induction over the round count. */
#include "contracts/verif_common.h"
uint8_t nondet_u8(void);

static void fill(uint8_t *g, int n, uint8_t mask) { int i; for (i = 0; i < n; ++i) g[i] = nondet_u8() & mask; }
static int same(const uint8_t *a, const uint8_t *b) { int i, r = 1; for (i = 0; i < 16; ++i) r &= (a[i] == b[i]); return r; }

void h_skinny128_round_inverse(void)
{
    uint8_t g[16], s[16], rk[8]; int i;
    fill(g, 16, 0xFF); fill(rk, 8, 0xFF);
    for (i = 0; i < 16; ++i) s[i] = g[i];
    spec128_round(g, rk); spec128_inv_round(g, rk);
    __CPROVER_assert(same(g, s), "C03 lemma: spec128_inv_round(spec128_round(x, rk), rk) == x");
    spec128_inv_round(g, rk); spec128_round(g, rk);
    __CPROVER_assert(same(g, s), "C03 lemma: spec128_round(spec128_inv_round(x, rk), rk) == x");
    VCANARY();
}
void h_skinny64_round_inverse(void)
{
    uint8_t g[16], s[16], rk[8]; int i;
    fill(g, 16, 0xF); fill(rk, 8, 0xF);
    for (i = 0; i < 16; ++i) s[i] = g[i];
    spec64_round(g, rk); spec64_inv_round(g, rk);
    __CPROVER_assert(same(g, s), "C03 lemma: spec64_inv_round(spec64_round(x, rk), rk) == x");
    spec64_inv_round(g, rk); spec64_round(g, rk);
    __CPROVER_assert(same(g, s), "C03 lemma: spec64_round(spec64_inv_round(x, rk), rk) == x");
    VCANARY();
}
/* MANTIS: a forward step undoes a backward step taken with the same round key cells, tweak and round
 * constant, and vice versa; the middle S M S is an involution.  With E's structure
 *   whiten(k0,k1,T); F_1..F_r [k1]; middle; B_r..B_1 [k1^alpha]; whiten(k0',k1^alpha,T)
 * and D = the same circuit under (k0', k0, k1^alpha) this gives D(E(x)) = x by peeling one step at a
 * time (meta-induction over r, trusted). */
void h_mantis_step_inverse(void)
{
    uint8_t g[16], s[16], t[16], t0[16], k[16]; unsigned rc; int i;
    fill(g, 16, 0xF); fill(t, 16, 0xF); fill(k, 16, 0xF);
    __CPROVER_assume(rc < 8);
    for (i = 0; i < 16; ++i) { s[i] = g[i]; t0[i] = t[i]; }
    /* backward step, then forward step */
    specm_mix(g); specm_perm_inv(g); specm_xor(g, k); specm_xor(g, t); specm_xor(g, SPEC_MRC[rc]); specm_sub(g); specm_h_inv(t);
    specm_h(t); specm_sub(g); specm_xor(g, SPEC_MRC[rc]); specm_xor(g, k); specm_xor(g, t); specm_perm(g); specm_mix(g);
    __CPROVER_assert(same(g, s) && same(t, t0), "C03 lemma: MANTIS forward step undoes backward step");
    /* forward step, then backward step */
    specm_h(t); specm_sub(g); specm_xor(g, SPEC_MRC[rc]); specm_xor(g, k); specm_xor(g, t); specm_perm(g); specm_mix(g);
    specm_mix(g); specm_perm_inv(g); specm_xor(g, k); specm_xor(g, t); specm_xor(g, SPEC_MRC[rc]); specm_sub(g); specm_h_inv(t);
    __CPROVER_assert(same(g, s) && same(t, t0), "C03 lemma: MANTIS backward step undoes forward step");
    /* middle layer is an involution */
    specm_sub(g); specm_mix(g); specm_sub(g); specm_sub(g); specm_mix(g); specm_sub(g);
    __CPROVER_assert(same(g, s), "C03 lemma: MANTIS middle layer S M S is an involution");
    /* whitening is an involution */
    specm_xor(g, k); specm_xor(g, t); specm_xor(g, k); specm_xor(g, t);
    __CPROVER_assert(same(g, s), "C03 lemma: whitening cancels");
    VCANARY();
}
