/* Harness TU for examples/skinny-ecb.c (C20) */
#include "contracts/examples.h"
#include "skinny128-cipher.h"
#include "skinny128-parallel.h"
#include "skinny64-cipher.h"
#include "skinny64-parallel.h"
#include "options.h"
#define VC_main VEX_MAIN_CONTRACT(6, 1)
#define VL_main_1 VEX_MAIN_LOOP
#include "verif_defaults.h"
int parse_options(int argc, char *argv[], int flags) VC_parse_options_ROLE;
#define obj ecb
int skinny128_parallel_ecb_init(Skinny128ParallelECB_t *ecb) VX_INIT(128);
int skinny64_parallel_ecb_init(Skinny64ParallelECB_t *ecb) VX_INIT(64);
void skinny128_parallel_ecb_cleanup(Skinny128ParallelECB_t *ecb) VX_CLEANUP(128);
void skinny64_parallel_ecb_cleanup(Skinny64ParallelECB_t *ecb) VX_CLEANUP(64);
#define k key_
#define n size
int skinny128_parallel_ecb_set_key(Skinny128ParallelECB_t *ecb, const void *key_, unsigned size) VX_SETKEY(128, 16);
int skinny64_parallel_ecb_set_key(Skinny64ParallelECB_t *ecb, const void *key_, unsigned size) VX_SETKEY(64, 8);
#undef n
/* direction must follow the -d option */
static int VX_DIR;
#define VX_XFORM_DIR(N, B, D) VX_XFORM(N, B, 0) __CPROVER_requires((encrypt != 0) == (D))
int skinny128_parallel_ecb_encrypt(void *output, const void *input, size_t size, const Skinny128ParallelECB_t *ecb) VX_XFORM_DIR(128, 16, 1);
int skinny128_parallel_ecb_decrypt(void *output, const void *input, size_t size, const Skinny128ParallelECB_t *ecb) VX_XFORM_DIR(128, 16, 0);
int skinny64_parallel_ecb_encrypt(void *output, const void *input, size_t size, const Skinny64ParallelECB_t *ecb) VX_XFORM_DIR(64, 8, 1);
int skinny64_parallel_ecb_decrypt(void *output, const void *input, size_t size, const Skinny64ParallelECB_t *ecb) VX_XFORM_DIR(64, 8, 0);
#undef obj
#undef k
#define fopen verif_fopen
#define fread verif_fread
#define feof verif_feof
#define fwrite verif_fwrite
#define fclose verif_fclose
#define main skinny_ecb_main
#include "examples/skinny-ecb.c"
#undef main
void h_main(void) { int argc; char **argv; skinny_ecb_main(argc, argv); VCANARY(); }
