/* Harness TU for the helpers of src/skinny-internal.h */
#include "contracts/skinny-internal.h"
#include "verif_defaults.h"
#include "src/skinny-internal.h"

void h_cleanse(void) { void *ptr; size_t size; skinny_cleanse(ptr, size); VCANARY(); }
void h_xor(void) { void *o; const void *a; const void *b; size_t size; skinny_xor(o, a, b, size); VCANARY(); }
void h_xor128(void) { void *o; const void *a; const void *b; skinny128_xor(o, a, b); VCANARY(); }
void h_xor64(void) { void *o; const void *a; const void *b; skinny64_xor(o, a, b); VCANARY(); }
void h_inc128(void) { uint8_t *c; uint16_t inc; skinny128_inc_counter(c, inc); VCANARY(); }
void h_inc64(void) { uint8_t *c; uint16_t inc; skinny64_inc_counter(c, inc); VCANARY(); }
