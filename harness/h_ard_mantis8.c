/* Harness TU for class Mantis8 of the Arduino port (see h_ard_skinny128.c). */
#include "contracts/arduino-mantis8.h"
#include "verif_defaults.h"
#include "arduino/Mantis8.c"

void h_encryptBlock(void) { uint8_t *o; const uint8_t *i; Mantis8__encryptBlock(o, i); VCANARY(); }
void h_decryptBlock(void) { uint8_t *o; const uint8_t *i; Mantis8__decryptBlock(o, i); VCANARY(); }
void h_setKey(void) { const uint8_t *k; size_t len; Mantis8__setKey(k, len); VCANARY(); }
void h_setTweak(void) { const uint8_t *t; size_t len; Mantis8__setTweak(t, len); VCANARY(); }
void h_swapModes(void) { Mantis8__swapModes(); VCANARY(); }
void h_clear(void) { Mantis8__clear(); VCANARY(); }
void h_sizes(void)
{
    __CPROVER_assert(Mantis8__blockSize() == 8 && Mantis8__keySize() == 16 && sizeof(st) == 32, "C19 constructor: Mantis8 block and key size");
    VCANARY();
}
