/* C08 harness TU: the three scalar cipher files and the helpers, with the leak recorder active and NO
 * contracts (all V*_ points empty).  Each entry runs the real function twice on the same public
 * parameters with independent secrets. */
#include "contracts/verif_leak.h"
#include "verif_defaults.h"
#include "src/skinny128-cipher.c"
#include "src/skinny64-cipher.c"
#undef RC
#include "src/mantis-cipher.c"

#ifndef CT_LEN
#define CT_LEN 16
#endif

void h_ct_s128_encrypt(void)
{
    VSECRET(Skinny128Key_t, k1, sizeof(Skinny128Key_t)); VSECRET(Skinny128Key_t, k2, sizeof(Skinny128Key_t));
    VSECRET(uint8_t, i1, 16); VSECRET(uint8_t, i2, 16); VSECRET(uint8_t, o, 16);
    __CPROVER_assume(k1->rounds <= SKINNY128_MAX_ROUNDS && k2->rounds == k1->rounds);
    VLEAK_BEGIN(); skinny128_ecb_encrypt(o, i1, k1); VLEAK_SECOND(); skinny128_ecb_encrypt(o, i2, k2); VLEAK_END(1);
}
void h_ct_s128_decrypt(void)
{
    VSECRET(Skinny128Key_t, k1, sizeof(Skinny128Key_t)); VSECRET(Skinny128Key_t, k2, sizeof(Skinny128Key_t));
    VSECRET(uint8_t, i1, 16); VSECRET(uint8_t, i2, 16); VSECRET(uint8_t, o, 16);
    __CPROVER_assume(1 <= k1->rounds && k1->rounds <= SKINNY128_MAX_ROUNDS && k2->rounds == k1->rounds);
    VLEAK_BEGIN(); skinny128_ecb_decrypt(o, i1, k1); VLEAK_SECOND(); skinny128_ecb_decrypt(o, i2, k2); VLEAK_END(1);
}
void h_ct_s64_encrypt(void)
{
    VSECRET(Skinny64Key_t, k1, sizeof(Skinny64Key_t)); VSECRET(Skinny64Key_t, k2, sizeof(Skinny64Key_t));
    VSECRET(uint8_t, i1, 8); VSECRET(uint8_t, i2, 8); VSECRET(uint8_t, o, 8);
    __CPROVER_assume(k1->rounds <= SKINNY64_MAX_ROUNDS && k2->rounds == k1->rounds);
    VLEAK_BEGIN(); skinny64_ecb_encrypt(o, i1, k1); VLEAK_SECOND(); skinny64_ecb_encrypt(o, i2, k2); VLEAK_END(1);
}
void h_ct_s64_decrypt(void)
{
    VSECRET(Skinny64Key_t, k1, sizeof(Skinny64Key_t)); VSECRET(Skinny64Key_t, k2, sizeof(Skinny64Key_t));
    VSECRET(uint8_t, i1, 8); VSECRET(uint8_t, i2, 8); VSECRET(uint8_t, o, 8);
    __CPROVER_assume(1 <= k1->rounds && k1->rounds <= SKINNY64_MAX_ROUNDS && k2->rounds == k1->rounds);
    VLEAK_BEGIN(); skinny64_ecb_decrypt(o, i1, k1); VLEAK_SECOND(); skinny64_ecb_decrypt(o, i2, k2); VLEAK_END(1);
}
/* key set-up: public = key length CT_LEN (one job per representative length); secret = key bytes and the
   previous contents of the schedule object */
void h_ct_s128_set_key(void)
{
    VSECRET(Skinny128Key_t, k1, sizeof(Skinny128Key_t)); VSECRET(Skinny128Key_t, k2, sizeof(Skinny128Key_t));
    VSECRET(uint8_t, a, CT_LEN ? CT_LEN : 1); VSECRET(uint8_t, b, CT_LEN ? CT_LEN : 1);
    VLEAK_BEGIN(); skinny128_set_key(k1, a, CT_LEN); VLEAK_SECOND(); skinny128_set_key(k2, b, CT_LEN); VLEAK_END(1);
}
void h_ct_s64_set_key(void)
{
    VSECRET(Skinny64Key_t, k1, sizeof(Skinny64Key_t)); VSECRET(Skinny64Key_t, k2, sizeof(Skinny64Key_t));
    VSECRET(uint8_t, a, CT_LEN ? CT_LEN : 1); VSECRET(uint8_t, b, CT_LEN ? CT_LEN : 1);
    VLEAK_BEGIN(); skinny64_set_key(k1, a, CT_LEN); VLEAK_SECOND(); skinny64_set_key(k2, b, CT_LEN); VLEAK_END(1);
}
void h_ct_s128_set_tweaked_key(void)
{
    VSECRET(Skinny128TweakedKey_t, k1, sizeof(Skinny128TweakedKey_t)); VSECRET(Skinny128TweakedKey_t, k2, sizeof(Skinny128TweakedKey_t));
    VSECRET(uint8_t, a, CT_LEN ? CT_LEN : 1); VSECRET(uint8_t, b, CT_LEN ? CT_LEN : 1);
    VLEAK_BEGIN(); skinny128_set_tweaked_key(k1, a, CT_LEN); VLEAK_SECOND(); skinny128_set_tweaked_key(k2, b, CT_LEN); VLEAK_END(1);
}
void h_ct_s64_set_tweaked_key(void)
{
    VSECRET(Skinny64TweakedKey_t, k1, sizeof(Skinny64TweakedKey_t)); VSECRET(Skinny64TweakedKey_t, k2, sizeof(Skinny64TweakedKey_t));
    VSECRET(uint8_t, a, CT_LEN ? CT_LEN : 1); VSECRET(uint8_t, b, CT_LEN ? CT_LEN : 1);
    VLEAK_BEGIN(); skinny64_set_tweaked_key(k1, a, CT_LEN); VLEAK_SECOND(); skinny64_set_tweaked_key(k2, b, CT_LEN); VLEAK_END(1);
}
/* tweak change: public = tweak length and round count; secret = tweak bytes, previous tweak, schedule */
void h_ct_s128_set_tweak(void)
{
    VSECRET(Skinny128TweakedKey_t, k1, sizeof(Skinny128TweakedKey_t)); VSECRET(Skinny128TweakedKey_t, k2, sizeof(Skinny128TweakedKey_t));
    VSECRET(uint8_t, a, CT_LEN ? CT_LEN : 1); VSECRET(uint8_t, b, CT_LEN ? CT_LEN : 1);
    __CPROVER_assume(k1->ks.rounds <= SKINNY128_MAX_ROUNDS && k2->ks.rounds == k1->ks.rounds);
    VLEAK_BEGIN(); skinny128_set_tweak(k1, a, CT_LEN); VLEAK_SECOND(); skinny128_set_tweak(k2, b, CT_LEN); VLEAK_END(1);
}
void h_ct_s64_set_tweak(void)
{
    VSECRET(Skinny64TweakedKey_t, k1, sizeof(Skinny64TweakedKey_t)); VSECRET(Skinny64TweakedKey_t, k2, sizeof(Skinny64TweakedKey_t));
    VSECRET(uint8_t, a, CT_LEN ? CT_LEN : 1); VSECRET(uint8_t, b, CT_LEN ? CT_LEN : 1);
    __CPROVER_assume(k1->ks.rounds <= SKINNY64_MAX_ROUNDS && k2->ks.rounds == k1->ks.rounds);
    VLEAK_BEGIN(); skinny64_set_tweak(k1, a, CT_LEN); VLEAK_SECOND(); skinny64_set_tweak(k2, b, CT_LEN); VLEAK_END(1);
}
/* MANTIS: public = rounds (and mode / key size for set_key); secret = key material, tweak, block */
void h_ct_mantis_crypt(void)
{
    VSECRET(MantisKey_t, k1, sizeof(MantisKey_t)); VSECRET(MantisKey_t, k2, sizeof(MantisKey_t));
    VSECRET(uint8_t, i1, 8); VSECRET(uint8_t, i2, 8); VSECRET(uint8_t, o, 8);
    __CPROVER_assume(k1->rounds <= MANTIS_MAX_ROUNDS && k2->rounds == k1->rounds);
    VLEAK_BEGIN(); mantis_ecb_crypt(o, i1, k1); VLEAK_SECOND(); mantis_ecb_crypt(o, i2, k2); VLEAK_END(1);
}
void h_ct_mantis_crypt_tweaked(void)
{
    VSECRET(MantisKey_t, k1, sizeof(MantisKey_t)); VSECRET(MantisKey_t, k2, sizeof(MantisKey_t));
    VSECRET(uint8_t, i1, 8); VSECRET(uint8_t, i2, 8); VSECRET(uint8_t, t1, 8); VSECRET(uint8_t, t2, 8); VSECRET(uint8_t, o, 8);
    __CPROVER_assume(k1->rounds <= MANTIS_MAX_ROUNDS && k2->rounds == k1->rounds);
    VLEAK_BEGIN(); mantis_ecb_crypt_tweaked(o, i1, t1, k1); VLEAK_SECOND(); mantis_ecb_crypt_tweaked(o, i2, t2, k2); VLEAK_END(1);
}
void h_ct_mantis_set_key(void)
{
    VSECRET(MantisKey_t, k1, sizeof(MantisKey_t)); VSECRET(MantisKey_t, k2, sizeof(MantisKey_t));
    VSECRET(uint8_t, a, 16); VSECRET(uint8_t, b, 16);
    unsigned size, rounds; int mode;
    __CPROVER_assume(size <= 16);
    VLEAK_BEGIN(); mantis_set_key(k1, a, size, rounds, mode); VLEAK_SECOND(); mantis_set_key(k2, b, size, rounds, mode); VLEAK_END(1);
}
void h_ct_mantis_set_tweak_swap(void)
{
    VSECRET(MantisKey_t, k1, sizeof(MantisKey_t)); VSECRET(MantisKey_t, k2, sizeof(MantisKey_t));
    VSECRET(uint8_t, a, 8); VSECRET(uint8_t, b, 8);
    unsigned size;
    VLEAK_BEGIN(); mantis_set_tweak(k1, a, size); mantis_swap_modes(k1); VLEAK_SECOND(); mantis_set_tweak(k2, b, size); mantis_swap_modes(k2); VLEAK_END(1);
}
/* counters and block xor helpers: secret = counter / data bytes */
void h_ct_helpers(void)
{
    VSECRET(uint8_t, a, 16); VSECRET(uint8_t, b, 16); VSECRET(uint8_t, c, 16); VSECRET(uint8_t, d, 16); VSECRET(uint8_t, o, 16);
    size_t n;
    __CPROVER_assume(n <= 16);
    VLEAK_BEGIN();
    skinny128_inc_counter(a, 1); skinny64_inc_counter(a, 1); skinny128_xor(o, a, b); skinny64_xor(o, a, b); skinny_xor(o, a, b, n); skinny_cleanse(a, n);
    VLEAK_SECOND();
    skinny128_inc_counter(c, 1); skinny64_inc_counter(c, 1); skinny128_xor(o, c, d); skinny64_xor(o, c, d); skinny_xor(o, c, d, n); skinny_cleanse(c, n);
    VLEAK_END(1);
}
