/* Harness TU for examples/skinny-tweak.c (C20) */
#include "contracts/examples.h"
#include "skinny128-cipher.h"
#include "skinny64-cipher.h"
#include "options.h"
static int VX_TWSET;      /* the tweak currently in the schedule is the tool's current tweak value */
/* which tweak each block gets: block number k of the FILE (not of the chunk) must be transformed under start tweak + k.
   VX_NBLK counts the blocks transformed so far, VX_TWINC the increments of the tool's tweak, VX_TWAPPLIED the increment
   count at the last set_tweak; a block call requires VX_TWAPPLIED == VX_NBLK. */
static size_t VX_NBLK, VX_TWINC, VX_TWAPPLIED;
#define VX_TWEAK_IN_STEP (VX_TWSET == 1 && VX_TWINC == VX_NBLK && VX_TWAPPLIED == VX_NBLK)
#define VC_main __CPROVER_assigns(VX_TWSET, VX_NBLK, VX_TWINC, VX_TWAPPLIED) VEX_MAIN_CONTRACT(5, 1)
#define VE_main VX_NBLK = 0; VX_TWINC = 0; VX_TWAPPLIED = 0;
#define VL_main_1 __CPROVER_assigns(VEX_MAIN_LOOP_ASSIGNS, posn, VX_TWSET, VX_NBLK, VX_TWINC, VX_TWAPPLIED, __CPROVER_object_upto(tweak, 16)) VEX_MAIN_LOOP_INV \
    __CPROVER_loop_invariant(VX_KEYED && VX_TWEAK_IN_STEP)
#define VL_main_2 \
    __CPROVER_assigns(posn, VF_XLEN, VF_XFORMED, VX_TWSET, VX_NBLK, VX_TWINC, VX_TWAPPLIED, __CPROVER_object_upto(tweak, 16)) \
    __CPROVER_loop_invariant(posn == VF_XLEN && (posn % block_size) == 0 && posn <= read_size && VX_TWEAK_IN_STEP) \
    __CPROVER_loop_invariant(posn == 0 || VF_XFORMED == 1)
/* increment_tweak(): functional contract (own job, loop unwound) and its role inside main */
#ifdef VERIF_EX_INCREMENT
static vu128 VX_T0;
#define VX_TWVAL(n) (((n) > 0 ? (vu128)tweak[(n) - 1] : 0) | ((n) > 1 ? (vu128)tweak[(n) - 2] << 8 : 0) | ((n) > 2 ? (vu128)tweak[(n) - 3] << 16 : 0) | \
    ((n) > 3 ? (vu128)tweak[(n) - 4] << 24 : 0) | ((n) > 4 ? (vu128)tweak[(n) - 5] << 32 : 0) | ((n) > 5 ? (vu128)tweak[(n) - 6] << 40 : 0) | \
    ((n) > 6 ? (vu128)tweak[(n) - 7] << 48 : 0) | ((n) > 7 ? (vu128)tweak[(n) - 8] << 56 : 0) | ((n) > 8 ? (vu128)tweak[(n) - 9] << 64 : 0) | \
    ((n) > 9 ? (vu128)tweak[(n) - 10] << 72 : 0) | ((n) > 10 ? (vu128)tweak[(n) - 11] << 80 : 0) | ((n) > 11 ? (vu128)tweak[(n) - 12] << 88 : 0) | \
    ((n) > 12 ? (vu128)tweak[(n) - 13] << 96 : 0) | ((n) > 13 ? (vu128)tweak[(n) - 14] << 104 : 0) | ((n) > 14 ? (vu128)tweak[(n) - 15] << 112 : 0) | \
    ((n) > 15 ? (vu128)tweak[(n) - 16] << 120 : 0))
#define VC_increment_tweak \
    __CPROVER_requires(tweak_size >= 1 && tweak_size <= 16) \
    __CPROVER_assigns(__CPROVER_object_upto(tweak, 16), VX_T0) \
    __CPROVER_ensures(VX_TWVAL(tweak_size) == ((VX_T0 + 1) & (tweak_size == 16 ? ~(vu128)0 : (((vu128)1 << (8 * (tweak_size & 15))) - 1)))) \
    __CPROVER_ensures(tweak_size == __CPROVER_old(tweak_size))
#define VE_increment_tweak VX_T0 = VX_TWVAL(tweak_size);
#else
#define VC_increment_tweak \
    __CPROVER_requires(tweak_size >= 1 && tweak_size <= 16) \
    __CPROVER_assigns(__CPROVER_object_upto(tweak, 16), VX_TWSET, VX_TWINC) __CPROVER_ensures(VX_TWSET == 0 && VX_TWINC == __CPROVER_old(VX_TWINC) + 1)
#endif
#include "verif_defaults.h"
int parse_options(int argc, char *argv[], int flags) VC_parse_options_ROLE;
#define VX_TK(N, B) \
    __CPROVER_requires(block_size == (B) && key_ == (const void *)key && size == key_size && size >= (B) && size <= 2 * (B)) \
    __CPROVER_assigns(VX_OBJ##N, VX_KEYED) __CPROVER_ensures(VX_OBJ##N == (const void *)ks && VX_KEYED == 1 && __CPROVER_return_value == 1)
#define VX_TW(N, B) \
    __CPROVER_requires((const void *)ks == VX_OBJ##N && VX_KEYED && block_size == (B) && tw == (const void *)tweak && size == tweak_size && size >= 1 && size <= (B)) \
    __CPROVER_assigns(VX_TWSET, VX_TWAPPLIED) __CPROVER_ensures(VX_TWSET == 1 && VX_TWAPPLIED == VX_TWINC && __CPROVER_return_value == 1)
#define VX_BLK(N, B, D) \
    __CPROVER_requires((const void *)ks == VX_OBJ##N && VX_KEYED && VX_TWSET == 1 && block_size == (B) && (encrypt != 0) == (D)) \
    __CPROVER_requires(VX_TWAPPLIED == VX_NBLK)   /* block k of the file under start tweak + k */ \
    __CPROVER_requires(output == (void *)((const uint8_t *)VF_BUF + VF_XLEN) && input == (const void *)((const uint8_t *)VF_BUF + VF_XLEN) && VF_XLEN + (B) <= VF_BUF_LEN) \
    __CPROVER_assigns(VF_XLEN, VF_XFORMED, VX_NBLK) __CPROVER_ensures(VF_XLEN == __CPROVER_old(VF_XLEN) + (B) && VF_XFORMED == 1 && VX_NBLK == __CPROVER_old(VX_NBLK) + 1)
int skinny128_set_tweaked_key(Skinny128TweakedKey_t *ks, const void *key_, unsigned size) VX_TK(128, 16);
int skinny64_set_tweaked_key(Skinny64TweakedKey_t *ks, const void *key_, unsigned size) VX_TK(64, 8);
int skinny128_set_tweak(Skinny128TweakedKey_t *ks, const void *tw, unsigned size) VX_TW(128, 16);
int skinny64_set_tweak(Skinny64TweakedKey_t *ks, const void *tw, unsigned size) VX_TW(64, 8);
void skinny128_ecb_encrypt(void *output, const void *input, const Skinny128Key_t *ks) VX_BLK(128, 16, 1);
void skinny128_ecb_decrypt(void *output, const void *input, const Skinny128Key_t *ks) VX_BLK(128, 16, 0);
void skinny64_ecb_encrypt(void *output, const void *input, const Skinny64Key_t *ks) VX_BLK(64, 8, 1);
void skinny64_ecb_decrypt(void *output, const void *input, const Skinny64Key_t *ks) VX_BLK(64, 8, 0);
#define fopen verif_fopen
#define fread verif_fread
#define feof verif_feof
#define fwrite verif_fwrite
#define fclose verif_fclose
#define main skinny_tweak_main
#include "examples/skinny-tweak.c"
#undef main
void h_main(void) { int argc; char **argv; skinny_tweak_main(argc, argv); VCANARY(); }
void h_increment(void) { increment_tweak(); VCANARY(); }
