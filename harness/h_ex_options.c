/* Harness TU for examples/options.c (C20): parse_options against the contract the three main()s assume,
 * parse_hex against the contract parse_options assumes.  getopt is replaced by a model that returns an
 * arbitrary option letter with an arbitrary (bounded-length, NUL-terminated) argument string, or -1 with
 * an arbitrary optind in [1, argc]: the ASSUMED contract of getopt(3). */
#include "contracts/examples.h"
#include <getopt.h>
#include <string.h>
#ifndef VEX_STRMAX
#define VEX_STRMAX 8
#endif
char *verif_optarg; int verif_optind;
static int VG_ARGC;
static char VG_OPTSTR[VEX_STRMAX + 1];
/* ghost record of what the LAST -c/-t and the LAST -k argument parsed to (length and one arbitrary witness byte each): the options
 * parse_options leaves behind must be exactly these - a counter/tweak/key that is padded, truncated or re-aligned on the way to the
 * library makes the tool's output differ from the library's encryption under the options the user gave (C20) */
static int VG_TWGIVEN, VG_KGIVEN; static unsigned VG_TWLEN, VG_KLEN, VG_TWW, VG_KW; static uint8_t VG_TWB, VG_KB;
char nondet_char(void);
static int verif_getopt(int argc, char *const argv[], const char *optstring)
{
    int r = nondet_int();
    /* an arbitrary NUL-terminated argument of at most VEX_STRMAX characters (no allocation: dfcc forbids it inside a contracted loop) */
    VG_OPTSTR[0] = nondet_char(); VG_OPTSTR[1] = nondet_char(); VG_OPTSTR[2] = nondet_char(); VG_OPTSTR[3] = nondet_char();
    VG_OPTSTR[4] = nondet_char(); VG_OPTSTR[5] = nondet_char(); VG_OPTSTR[6] = nondet_char(); VG_OPTSTR[7] = nondet_char();
    VG_OPTSTR[VEX_STRMAX] = '\0';
    verif_optarg = VG_OPTSTR;
    if (r == -1) { verif_optind = nondet_int(); __CPROVER_assume(verif_optind >= 1 && verif_optind <= argc); }
    return r;
}
#define getopt verif_getopt
#define optarg verif_optarg
#define optind verif_optind

/* parse_hex: writes only buf[0..max_len), returns the number of bytes stored (0 on error) */
#define VC_parse_hex_OWN \
    __CPROVER_requires(max_len <= 48 && __CPROVER_is_fresh(buf, max_len) && __CPROVER_is_fresh(str, VEX_STRMAX + 1) && str[VEX_STRMAX] == '\0') \
    __CPROVER_assigns(__CPROVER_object_upto(buf, max_len)) \
    __CPROVER_ensures(__CPROVER_return_value <= max_len)
/* as called from parse_options: buf is one of the two global arrays */
#define VC_parse_hex_ROLE \
    __CPROVER_requires(((void *)buf == (void *)key && max_len == 48) || ((void *)buf == (void *)tweak && max_len == 16)) \
    __CPROVER_requires(str == verif_optarg) \
    __CPROVER_assigns(__CPROVER_object_upto(buf, max_len)) \
    __CPROVER_assigns((void *)buf == (void *)tweak: VG_TWGIVEN, VG_TWLEN, VG_TWB) \
    __CPROVER_assigns((void *)buf == (void *)key: VG_KGIVEN, VG_KLEN, VG_KB) \
    __CPROVER_ensures(__CPROVER_return_value <= max_len) \
    __CPROVER_ensures((void *)buf == (void *)tweak ==> (VG_TWGIVEN == 1 && VG_TWLEN == __CPROVER_return_value && VG_TWB == buf[VG_TWW])) \
    __CPROVER_ensures((void *)buf == (void *)key ==> (VG_KGIVEN == 1 && VG_KLEN == __CPROVER_return_value && VG_KB == buf[VG_KW]))
#ifndef VERIF_EX_PARSE_OPTIONS
#define VC_parse_hex VC_parse_hex_OWN
#else
#define VC_parse_hex VC_parse_hex_ROLE
#define VC_parse_options_FULL \
    __CPROVER_requires(argc >= 1 && argc <= 8 && __CPROVER_is_fresh(argv, 9 * sizeof(char *))) \
    __CPROVER_requires(block_size == 16 && key_size == 0 && tweak_size == 0 && encrypt == 1) \
    __CPROVER_requires(VG_TWGIVEN == 0 && VG_KGIVEN == 0 && VG_TWW < 16 && VG_KW < 48) \
    __CPROVER_assigns(input_filename, output_filename, block_size, key_size, tweak_size, encrypt, \
                      __CPROVER_object_upto(key, 48), __CPROVER_object_upto(tweak, 16), verif_optarg, verif_optind, __CPROVER_object_whole(VG_OPTSTR), \
                      VG_TWGIVEN, VG_TWLEN, VG_TWB, VG_KGIVEN, VG_KLEN, VG_KB) \
    __CPROVER_ensures(__CPROVER_return_value == 0 || __CPROVER_return_value == 1) \
    __CPROVER_ensures(__CPROVER_return_value == 1 ==> (VG_KGIVEN == 1 && key_size == VG_KLEN && (VG_KW < VG_KLEN ==> key[VG_KW] == VG_KB))) \
    __CPROVER_ensures((__CPROVER_return_value == 1 && VG_TWGIVEN == 1) ==> (tweak_size == VG_TWLEN && (VG_TWW < VG_TWLEN ==> tweak[VG_TWW] == VG_TWB))) \
    __CPROVER_ensures((__CPROVER_return_value == 1 && VG_TWGIVEN != 1) ==> (tweak_size == block_size && (VG_TWW < block_size ==> tweak[VG_TWW] == 0))) \
    __CPROVER_ensures(__CPROVER_return_value == 1 ==> \
        ((block_size == 8 || block_size == 16) && key_size >= block_size && key_size <= ((flags & 1) ? 2 * block_size : 3 * block_size) && \
         tweak_size >= 1 && tweak_size <= block_size && input_filename == argv[verif_optind] && output_filename == argv[verif_optind + 1]))
#undef VC_parse_options
#define VC_parse_options VC_parse_options_FULL
#define VL_parse_options_1 \
    __CPROVER_assigns(opt, have_key, block_size, key_size, tweak_size, encrypt, __CPROVER_object_upto(key, 48), __CPROVER_object_upto(tweak, 16), verif_optarg, verif_optind, __CPROVER_object_whole(VG_OPTSTR), \
                      VG_TWGIVEN, VG_TWLEN, VG_TWB, VG_KGIVEN, VG_KLEN, VG_KB) \
    __CPROVER_loop_invariant((block_size == 8 || block_size == 16) && key_size <= 48 && tweak_size <= 16) \
    __CPROVER_loop_invariant((VG_TWGIVEN == 0 || VG_TWGIVEN == 1) && (VG_KGIVEN == 0 || VG_KGIVEN == 1) && VG_TWW < 16 && VG_KW < 48) \
    __CPROVER_loop_invariant(VG_TWGIVEN == 0 ==> tweak_size == 0) \
    __CPROVER_loop_invariant(VG_TWGIVEN == 1 ==> (tweak_size == VG_TWLEN && VG_TWLEN >= 1 && tweak[VG_TWW] == VG_TWB)) \
    __CPROVER_loop_invariant(VG_KGIVEN == have_key) \
    __CPROVER_loop_invariant(VG_KGIVEN == 1 ==> (key_size == VG_KLEN && VG_KLEN >= 1 && key[VG_KW] == VG_KB))
#endif
/* the message printers write to stderr only */
#define VC_usage __CPROVER_requires(1) __CPROVER_assigns() __CPROVER_ensures(1)
#define VC_invalid_key_size __CPROVER_requires(1) __CPROVER_assigns() __CPROVER_ensures(1)
/* the string walk of parse_hex: bounded by the string length (<= VEX_STRMAX, unwound) */
#include "verif_defaults.h"
/* strcmp: result abstracted (any value): every comparison outcome is explored; CBMC's library model has a loop, which
   dfcc cannot frame inside a contracted function (11.6) */
int strcmp(const char *a, const char *b) __CPROVER_requires(1) __CPROVER_assigns() __CPROVER_ensures(1);
#include "examples/options.c"

void h_parse_hex(void) { uint8_t *buf; unsigned max_len; const char *str; parse_hex(buf, max_len, str); VCANARY(); }
void h_parse_options(void) { int argc; char **argv; int flags; __CPROVER_assume(flags == 0 || flags == 5 || flags == 6); parse_options(argc, argv, flags); VCANARY(); }
