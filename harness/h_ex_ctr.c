/* Harness TU for examples/skinny-ctr.c (C20) */
#include "contracts/examples.h"
#include "skinny128-cipher.h"
#include "skinny64-cipher.h"
#include "options.h"
#define VC_main VEX_MAIN_CONTRACT(0, 0)
#define VL_main_1 VEX_MAIN_LOOP
#include "verif_defaults.h"
int parse_options(int argc, char *argv[], int flags) VC_parse_options_ROLE;
#define obj ctr
int skinny128_ctr_init(Skinny128CTR_t *ctr) VX_INIT(128);
int skinny64_ctr_init(Skinny64CTR_t *ctr) VX_INIT(64);
void skinny128_ctr_cleanup(Skinny128CTR_t *ctr) VX_CLEANUP(128);
void skinny64_ctr_cleanup(Skinny64CTR_t *ctr) VX_CLEANUP(64);
#define k key_
#define n size
int skinny128_ctr_set_key(Skinny128CTR_t *ctr, const void *key_, unsigned size) VX_SETKEY(128, 16);
int skinny64_ctr_set_key(Skinny64CTR_t *ctr, const void *key_, unsigned size) VX_SETKEY(64, 8);
#define c counter
int skinny128_ctr_set_counter(Skinny128CTR_t *ctr, const void *counter, unsigned size) VX_SETCTR(128, 16);
int skinny64_ctr_set_counter(Skinny64CTR_t *ctr, const void *counter, unsigned size) VX_SETCTR(64, 8);
#undef n
int skinny128_ctr_encrypt(void *output, const void *input, size_t size, Skinny128CTR_t *ctr) VX_XFORM(128, 16, 1);
int skinny64_ctr_encrypt(void *output, const void *input, size_t size, Skinny64CTR_t *ctr) VX_XFORM(64, 8, 1);
#undef obj
#undef k
#undef c
#define fopen verif_fopen
#define fread verif_fread
#define feof verif_feof
#define fwrite verif_fwrite
#define fclose verif_fclose
#define main skinny_ctr_main
#include "examples/skinny-ctr.c"
#undef main
void h_main(void) { int argc; char **argv; skinny_ctr_main(argc, argv); VCANARY(); }
