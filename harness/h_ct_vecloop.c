/* C08 harness TU for the Skinny vector block functions (parallel ECB, 128-bit and 256-bit back ends),
 * UNBOUNDED in the round count: the two-run self-composition of verif_leak.h with a LOOP CONTRACT on the
 * round loop instead of unwinding (2 x 56 unwound vector rounds did not finish, see jobs.py).
 *
 * Invariant at the loop head (before the loop condition is observed), for either run:
 *   - the number of observations so far is  n0 + (rounds - index): exactly ONE observation per iteration,
 *     the loop condition itself - any further branch or subscript observation in the body breaks the step;
 *   - run 1: if the witness position lies in [n0, VG_LN) the recorded observation is "condition true" (1),
 *     if it lies before n0 the record made before the loop is untouched;
 *   - run 2: run 1's record is untouched (dfcc havocs the statics verif_leak() may assign);
 *   - the schedule cursor is where the C07 contract says (needed for memory safety after the havoc).
 * The data path (rows, temp) is havocked and unconstrained: nothing observable may depend on it.
 * rounds is public and equal in both runs; schedule words, blocks and previous output are secret. */
#include "contracts/verif_leak.h"
#define CT_PRE unsigned vc_n0 = VG_LN; int vc_hit0 = VG_LHIT1; long vc_lv0 = VG_LV1; unsigned vc_r0 = ks->rounds;
#define CT_INV(SCHED) \
    __CPROVER_assigns(index, schedule, temp, row0, row1, row2, row3, VG_LN, VG_LV1, VG_LHIT1) \
    __CPROVER_loop_invariant(index <= vc_r0 && vc_r0 == ks->rounds) \
    __CPROVER_loop_invariant(SCHED) \
    __CPROVER_loop_invariant(VG_LN == vc_n0 + (vc_r0 - index)) \
    __CPROVER_loop_invariant(VG_RUN == 2 ==> (VG_LHIT1 == vc_hit0 && VG_LV1 == vc_lv0)) \
    __CPROVER_loop_invariant((VG_RUN == 1 && VG_LW < vc_n0) ==> (VG_LHIT1 == vc_hit0 && VG_LV1 == vc_lv0)) \
    __CPROVER_loop_invariant((VG_RUN == 1 && VG_LW >= VG_LN) ==> (VG_LHIT1 == vc_hit0)) \
    __CPROVER_loop_invariant((VG_RUN == 1 && VG_LW >= vc_n0 && VG_LW < VG_LN) ==> (VG_LHIT1 == 1 && VG_LV1 == 1)) \
    __CPROVER_decreases(index)
#if defined(CT_BOUNDED)
/* bounded companion (labelled bounded, never counted as proof): no loop contract, rounds <= CT_BOUNDED unwound completely.
 * Its only purpose: a C08 failure found here is a concrete two-run trace through the real loop (no havoc), so it decides
 * VIOLATION when the loop proof above merely reports "invariant not inductive" for a changed loop. */
#undef CT_PRE
#define CT_PRE
#define CT_ENC
#define CT_DEC
#else
#define CT_ENC CT_INV(schedule == ks->schedule + (ks->rounds - index))
#define CT_DEC CT_INV(schedule == ks->schedule + index - 1)
#endif

#if defined(CT_VEC_S128)
#define VP__skinny128_parallel_encrypt_vec128_1 CT_PRE
#define VL__skinny128_parallel_encrypt_vec128_1 CT_ENC
#define VP__skinny128_parallel_decrypt_vec128_1 CT_PRE
#define VL__skinny128_parallel_decrypt_vec128_1 CT_DEC
#include "verif_defaults.h"
#include "src/skinny128-parallel-vec128.c"
#define KEY_T Skinny128Key_t
#define MAXR SKINNY128_MAX_ROUNDS
#define NBYTES 64
#define ENC _skinny128_parallel_encrypt_vec128
#define DEC _skinny128_parallel_decrypt_vec128
#elif defined(CT_VEC_S128B)
#define VP__skinny128_parallel_encrypt_vec256_1 CT_PRE
#define VL__skinny128_parallel_encrypt_vec256_1 CT_ENC
#define VP__skinny128_parallel_decrypt_vec256_1 CT_PRE
#define VL__skinny128_parallel_decrypt_vec256_1 CT_DEC
#include "verif_defaults.h"
#include "src/skinny128-parallel-vec256.c"
#define KEY_T Skinny128Key_t
#define MAXR SKINNY128_MAX_ROUNDS
#define NBYTES 128
#define ENC _skinny128_parallel_encrypt_vec256
#define DEC _skinny128_parallel_decrypt_vec256
#else
#define VP__skinny64_parallel_encrypt_vec128_1 CT_PRE
#define VL__skinny64_parallel_encrypt_vec128_1 CT_ENC
#define VP__skinny64_parallel_decrypt_vec128_1 CT_PRE
#define VL__skinny64_parallel_decrypt_vec128_1 CT_DEC
#include "verif_defaults.h"
#include "src/skinny64-parallel-vec128.c"
#define KEY_T Skinny64Key_t
#define MAXR SKINNY64_MAX_ROUNDS
#define NBYTES 64
#define ENC _skinny64_parallel_encrypt_vec128
#define DEC _skinny64_parallel_decrypt_vec128
#endif

void h_ct_vecloop(void)
{
    VSECRET(KEY_T, k1, sizeof(KEY_T)); VSECRET(KEY_T, k2, sizeof(KEY_T));
    VSECRET(uint8_t, i1, NBYTES); VSECRET(uint8_t, i2, NBYTES); VSECRET(uint8_t, o, NBYTES);
    /* the schedule array bounds the cursor; any round count the array can hold (public, equal in both runs) */
    __CPROVER_assume(k1->rounds <= MAXR && k2->rounds == k1->rounds);
#if defined(CT_BOUNDED)
    __CPROVER_assume(k1->rounds <= CT_BOUNDED);
#endif
    VLEAK_BEGIN();
#if defined(CT_DIR_DEC)
    DEC(o, i1, k1);
#else
    ENC(o, i1, k1);
#endif
    VLEAK_SECOND();
#if defined(CT_DIR_DEC)
    DEC(o, i2, k2);
#else
    ENC(o, i2, k2);
#endif
    VLEAK_END(1);
}
