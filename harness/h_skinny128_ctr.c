/* Harness TU for src/skinny128-ctr.c (generic CTR back end + public dispatch). */
#include <stdlib.h>
#include <stddef.h>
#include "skinny128-cipher.h"
#include "contracts/skinny128-ctr.h"
#include "verif_defaults.h"
V128C_CALLEE_DECLS
#define free verif_free
#include "src/skinny128-ctr.c"
#undef free

void h_def_init(void)
{
    Skinny128CTR_t *ctr;
    int r = skinny128_ctr_def_init(ctr);
    VCANARY();
}
void h_def_cleanup(void)
{
    Skinny128CTR_t *ctr;
    skinny128_ctr_def_cleanup(ctr);
    VCANARY();
}
void h_def_set_key(void)
{
    Skinny128CTR_t *ctr; const void *key; unsigned size;
    skinny128_ctr_def_set_key(ctr, key, size);
    VCANARY();
}
void h_def_set_tweaked_key(void)
{
    Skinny128CTR_t *ctr; const void *key; unsigned size;
    skinny128_ctr_def_set_tweaked_key(ctr, key, size);
    VCANARY();
}
void h_def_set_tweak(void)
{
    Skinny128CTR_t *ctr; const void *tweak; unsigned size;
    skinny128_ctr_def_set_tweak(ctr, tweak, size);
    VCANARY();
}
void h_def_set_counter(void)
{
    Skinny128CTR_t *ctr; const void *counter; unsigned size;
#ifdef VERIF_CASE_LEN
    size = VERIF_CASE_LEN;
#endif
#ifdef VERIF_CASE_INVALID
    __CPROVER_assume(size > 16);
#endif
    skinny128_ctr_def_set_counter(ctr, counter, size);
    VCANARY();
}
void h_def_encrypt(void)
{
    void *output; const void *input; size_t size; Skinny128CTR_t *ctr;
    skinny128_ctr_def_encrypt(output, input, size, ctr);
    VCANARY();
}
