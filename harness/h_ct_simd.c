/* C08 harness TU for the SIMD CTR back ends: lane increment, set_counter and the bulk encrypt loop.  The
 * vector block function (ecb_encrypt_four/eight) is in the same TU; its body is removed for these jobs by
 * goto-instrument (--remove-function-body + --generate-function-body ... nondet-return): 2 x 56 unwound vector
 * rounds do not finish in symbolic execution; the block functions' own control flow has no secret-dependent
 * construct other than the round loop (public), cf. ct.vec128_mantis and the scalar block functions. */
#include "contracts/verif_leak.h"
#include "verif_defaults.h"
#if defined(CT_SIMD_S128A)
#include "src/skinny128-ctr-vec128.c"
#define CT_CTR_T Skinny128CTR_t
#define CT_CTX_T Skinny128CTRVec128Ctx_t
#define CT_VEC_T SkinnyVector4x32_t
#define CT_P(x) skinny128_ctr_vec128_##x
#define CT_INC skinny128_ctr_increment
#define CT_B 16
#define CT_LANES 4
#elif defined(CT_SIMD_S128B)
#include "src/skinny128-ctr-vec256.c"
#define CT_CTR_T Skinny128CTR_t
#define CT_CTX_T Skinny128CTRVec256Ctx_t
#define CT_VEC_T SkinnyVector8x32_t
#define CT_P(x) skinny128_ctr_vec256_##x
#define CT_INC skinny128_ctr_increment
#define CT_B 16
#define CT_LANES 8
#elif defined(CT_SIMD_S64)
#include "src/skinny64-ctr-vec128.c"
#define CT_CTR_T Skinny64CTR_t
#define CT_CTX_T Skinny64CTRVec128Ctx_t
#define CT_VEC_T SkinnyVector8x16_t
#define CT_P(x) skinny64_ctr_vec128_##x
#define CT_INC skinny64_ctr_increment
#define CT_B 8
#define CT_LANES 8
#else
#include "src/mantis-ctr-vec128.c"
#define CT_CTR_T MantisCTR_t
#define CT_CTX_T MantisCTRVec128Ctx_t
#define CT_VEC_T SkinnyVector8x16_t
#define CT_P(x) mantis_ctr_vec128_##x
#define CT_INC mantis_ctr_increment
#define CT_B 8
#define CT_LANES 8
#endif
#ifndef CT_LEN
#define CT_LEN 3
#endif
#ifndef CT_OFF
#define CT_OFF 5
#endif

void h_ct_increment(void)
{
    /* byte-typed secret objects (a vector-typed malloc makes CBMC's byte accesses pathological, cf. R19) */
    VSECRET(uint8_t, a, CT_B * CT_LANES); VSECRET(uint8_t, b, CT_B * CT_LANES);
    unsigned column, inc;
    __CPROVER_assume(column < CT_LANES && inc <= 8);
    VLEAK_BEGIN(); CT_INC((CT_VEC_T *)a, column, inc); VLEAK_SECOND(); CT_INC((CT_VEC_T *)b, column, inc); VLEAK_END(1);
}
void h_ct_set_counter(void)
{
    CT_CTR_T c1, c2;
    VSECRET(CT_CTX_T, x1, sizeof(CT_CTX_T)); VSECRET(CT_CTX_T, x2, sizeof(CT_CTX_T));
    VSECRET(uint8_t, a, CT_B); VSECRET(uint8_t, b, CT_B);
    unsigned n = CT_LEN; int isnull;
    c1.ctx = x1; c2.ctx = x2; c1.vtable = 0; c2.vtable = 0;
    VLEAK_BEGIN(); CT_P(set_counter)(&c1, isnull ? (void *)0 : a, n); VLEAK_SECOND(); CT_P(set_counter)(&c2, isnull ? (void *)0 : b, n); VLEAK_END(1);
}
void h_ct_encrypt(void)
{
    CT_CTR_T c1, c2;
    VSECRET(CT_CTX_T, x1, sizeof(CT_CTX_T)); VSECRET(CT_CTX_T, x2, sizeof(CT_CTX_T));
    VSECRET(uint8_t, i1, 2 * CT_B * CT_LANES + 8); VSECRET(uint8_t, i2, 2 * CT_B * CT_LANES + 8); VSECRET(uint8_t, o, 2 * CT_B * CT_LANES + 8);
    size_t n = CT_LEN;
    x1->offset = (CT_OFF <= CT_B * CT_LANES ? CT_OFF : CT_B * CT_LANES); x2->offset = x1->offset;
    c1.ctx = x1; c2.ctx = x2; c1.vtable = 0; c2.vtable = 0;
    VLEAK_BEGIN(); CT_P(encrypt)(o, i1, n, &c1); VLEAK_SECOND(); CT_P(encrypt)(o, i2, n, &c2); VLEAK_END(1);
}
